"""Engine A / structural contracts for external projects (C16): which module a USE statement is bound to, the search order of [[...]] references,
the re-basing of exported URLs and the containment of a bad external description."""
from __future__ import annotations
import ast, builtins
import z3
from pyvc.contract import *
from pyvc.engine import _Raise
from pyvc.blocks import between
from pyvc.values import *
from harness.core import OR, PROVED, REFUTED, UNKNOWN, ERROR
from harness import loader
from contracts.heapmodel import FIELDS, class_model
from contracts.display import H, sel, lst, base

I, S, B = z3.IntSort(), z3.StringSort(), z3.BoolSort()
SI = z3.SeqSort(I)
NOHIT = z3.Function("FUM_NOHIT", SI, I, S, B)        # none of the first k candidates has (case-insensitively) the used name


def find_used_modules_binding(prop="C16"):
    """the inner search loop of find_used_modules: a used name is bound to the first module of `modules ++ external_modules` that carries it"""
    c = base(Contract("ford.fortran_project", "find_used_modules", prop))
    c.qual_suffix = "binding"
    c.block_select = between("for candidate in chain(", None, container="for dependency in entity.uses")
    c.dropped.append("block contract: the loop `for candidate in chain(modules, external_modules)` inside `for dependency in entity.uses` "
                     "(dependency_name is the lower-cased used name computed by the statement before it)")
    c.param("dependency", TList("ref"))
    c.param("dependency_name", TStr())
    c.param("modules", TList("ref"))
    c.param("external_modules", TList("ref"))
    E = lambda v: V(v._e, v._e.entry)
    seq0 = lambda v0: z3.Concat(v0.heap.list_get(v0.val("modules")), v0.heap.list_get(v0.val("external_modules")))
    hit = lambda v, x, nm: nm == LOWER(sel(H(v, "name"), x))
    c.requires("use_entry_has_a_name_slot", lambda v: z3.Length(v.heap.list_get(v.val("dependency"))) >= 1)
    c.requires("distinct_lists", lambda v: z3.And(v.val("dependency").id != v.val("modules").id, v.val("dependency").id != v.val("external_modules").id))

    def unfold(v):
        e = E(v)
        seq = v.it.seq
        return [NOHIT(seq, 0, e.dependency_name), NOHIT(seq, v.k + 1, e.dependency_name) == z3.And(NOHIT(seq, v.k, e.dependency_name), z3.Not(hit(e, seq[v.k], e.dependency_name)))]
    c.loop(0, invariants=[("no_match_so_far", lambda v: NOHIT(v.it.seq, v.k, E(v).dependency_name)),
                          ("frame", lambda v: z3.And(v.it.seq == seq0(E(v)), H(v, "name") == H(E(v), "name"),
                                                     v.heap.list_get(v.val("dependency")) == E(v).heap.list_get(E(v).val("dependency")),
                                                     v.dependency_name == E(v).dependency_name))],
           unfold=unfold, variant=lambda v: z3.Length(v.it.seq) - v.k)
    c.post_facts = lambda v0: [NOHIT(seq0(v0), 0, v0.dependency_name)]
    j = z3.Int("j!fum")

    def post(v0, res, v1):
        seq = seq0(v0)
        d0, d1 = v0.heap.list_get(v0.val("dependency")), v1.heap.list_get(v1.val("dependency"))
        nm = v0.dependency_name
        bound = z3.Exists([j], z3.And(0 <= j, j < z3.Length(seq), d1[0] == seq[j], hit(v0, seq[j], nm), NOHIT(seq, j, nm),
                                      d1 == z3.Concat(z3.Unit(seq[j]), z3.SubSeq(d0, 1, z3.Length(d0) - 1))))
        return z3.Or(z3.And(NOHIT(seq, z3.Length(seq), nm), d1 == d0), bound)
    c.ensures("bound_to_the_first_match_in_local_then_external_order_else_unchanged", post)
    c.no_raise = True
    return c


def py_first_match(dep_name, modules, externals):
    for m in list(modules) + list(externals):
        if dep_name == m.name.lower():
            return m
    return None


# ------------------------------------------------------------------ dict2obj: re-basing of an exported URL
URLJOIN = z3.Function("URLJOIN", S, S, S)            # urllib.parse.urljoin (library contract, see urljoin_lemma)
EXPORT_PREFIX = "./"                                  # obj2dict writes f"./{get_url()}" (checked by obj2dict_prefix)


def after_first_slash(raw):
    at = z3.IndexOf(raw, z3.StringVal("/"), 0)
    return z3.If(z3.Contains(raw, z3.StringVal("/")), z3.SubString(raw, at + 1, z3.Length(raw) - at - 1), raw)


def dict2obj_rebase(prop="C16"):
    c = base(Contract("ford.external_project", "dict2obj", prop))
    c.qual_suffix = "rebase"
    c.block_select = between("if extDict['external_url']", "obj_type = ")
    c.dropped.append("block contract: the statement `if extDict['external_url']: ... else: ...` of dict2obj that computes external_url")
    c.param("extDict", TDict("str", "str"))
    c.param("url", TStr())
    c.param("remote", TBool())
    c.local("external_url", TStr())
    c.calls["urljoin"] = lambda eng, path, e, args, recv: SStr(URLJOIN(eng.to_str(path, args[0]), eng.to_str(path, args[1])))
    c.assumed.append("urljoin(base, rel) is a pure function (its value on slash-terminated bases is the subject of the separate urljoin lemma, bounded); "
                     "pathlib's `/` is a pure function of the string forms of its operands")
    KEY = z3.StringVal("external_url")
    raw = lambda v: z3.Select(v.heap.dict_val(v.val("extDict")), KEY)
    c.requires("description_has_a_url_entry", lambda v: z3.Select(v.heap.dict_has(v.val("extDict")), KEY))

    def post(v0, res, v1):
        r = raw(v0)
        rel = after_first_slash(r)
        return v1.external_url == z3.If(z3.Length(r) == 0, z3.StringVal(""), z3.If(v0.remote, URLJOIN(v0.url, rel), PATH_JOIN(v0.url, rel)))
    c.ensures("exported_url_without_its_first_component_joined_to_the_base", post)

    def roundtrip(v0, res, v1):
        # what obj2dict exported: './' + relative URL u of the entity in A  ==>  the entity is linked to base (+) u
        u = z3.String("u!rt")
        # u is a free constant of the goal: proving the goal valid proves it for every u
        return z3.Implies(z3.And(raw(v0) == z3.Concat(z3.StringVal(EXPORT_PREFIX), u), z3.Length(u) > 0),
                          v1.external_url == z3.If(v0.remote, URLJOIN(v0.url, u), PATH_JOIN(v0.url, u)))
    c.ensures("export_then_import_links_to_the_url_the_entity_has_in_its_own_project", roundtrip)
    c.no_raise = True
    c.z3_timeout_ms, c.cvc5_on_unknown = 5000, True
    return c


# ------------------------------------------------------------------ load_external_modules: one external project
# Library contracts (assumed): the exception classes a call may raise.  Everything else the call does is opaque.
LIB_RAISES = {
    "urlopen": ("URLError", "ValueError", "HTTPException"),          # urllib.request.urlopen: protocol errors, unknown URL type, http.client failures
    "read": ("OSError", "HTTPException"),                           # HTTPResponse.read: connection reset / timeout (OSError), IncompleteRead
    "decode": ("UnicodeDecodeError",),
    "json.loads": ("JSONDecodeError",),
    "read_text": ("OSError", "UnicodeDecodeError"),
    "resolve": ("OSError",),
}
MIS_SHAPED = ("KeyError", "TypeError", "AttributeError")           # what using a JSON value of an unexpected shape raises (subscripting, iterating, calling str methods)
FETCHED = z3.Function("FETCHED_FROM", S, S)


def _may_raise(eng, path, what, excs):
    for x in excs:
        if x not in getattr(path, "noraise", set()):
            raise _Raise(fresh(f"no_{x}_from_{what}", B), x)


def raises_of_function(modname, qualname):
    """exception classes a small helper may raise: union of LIB_RAISES over the calls in its body (mechanical, from the AST)"""
    fn = loader.find_def(modname, qualname)
    out = []
    for n in ast.walk(fn):
        if isinstance(n, ast.Call):
            name = ast.unparse(n.func)
            key = name if name in LIB_RAISES else name.split(".")[-1]
            for x in LIB_RAISES.get(key, ()):
                if x not in out:
                    out.append(x)
    return tuple(out)


class _OpaqueIter:
    """iteration over a JSON value of unknown shape: some number of opaque elements"""

    def __init__(self, tag):
        self.n = fresh("n_items", I)
        self.tag = tag

    def length(self, path):
        path.assume(self.n >= 0)
        return self.n

    def element(self, eng, path, k):
        return SOpaque(self.tag, fresh("item", I))


def load_external_one(prop="C16"):
    from revc.translate import lang
    c = base(Contract("ford.external_project", "load_external_modules", prop))
    c.qual_suffix = "one_project"
    c.block_select = between("remote = re.match(", None, container="for url in project.external.values()")
    c.dropped.append("block contract: the body of `for url in project.external.values()` (one external project); print calls")
    c.param("project", TOpaque("project"))
    c.param("url", TStr())
    c.globals["METADATA_NAME"] = SConst("ford-metadata")
    REMOTE_L = lang("https?://", mode="match")

    def re_match(eng, path, e, args, recv):
        if not (isinstance(args[0], SConst) and args[0].py == "https?://"):
            raise EngineError("re.match with another pattern than the one under contract")
        return SBool(z3.InRe(eng.to_str(path, args[1]), REMOTE_L))
    c.calls["re.match"] = re_match
    c.assumed.append("re.match('https?://', url) is truthy exactly when url is in the language of that pattern (Engine B translation of the literal pattern)")

    def urljoin(eng, path, e, args, recv):
        return SStr(URLJOIN(eng.to_str(path, args[0]), eng.to_str(path, args[1])))
    c.calls["urljoin"] = urljoin

    def urlopen(eng, path, e, args, recv):
        _may_raise(eng, path, "urlopen", LIB_RAISES["urlopen"])
        return SOpaque("response", fresh("resp", I))
    c.calls["urlopen"] = urlopen

    def m_read(eng, path, e, args, recv):
        _may_raise(eng, path, "read", LIB_RAISES["read"])
        return SOpaque("bytes", fresh("bytes", I))
    c.methods["read"] = m_read

    def m_decode(eng, path, e, args, recv):
        _may_raise(eng, path, "decode", LIB_RAISES["decode"])
        return SOpaque("text", fresh("text", I))
    c.methods["decode"] = m_decode

    def json_loads(eng, path, e, args, recv):
        _may_raise(eng, path, "json.loads", LIB_RAISES["json.loads"])
        return SOpaque("json", fresh("json", I))
    c.calls["json.loads"] = json_loads
    c.calls["pathlib.Path"] = lambda eng, path, e, args, recv: SStr(eng.to_str(path, args[0]))      # a path is modelled by its string form
    c.methods["is_absolute"] = lambda eng, path, e, args, recv: SBool(fresh("is_absolute", B))

    def opaque_attr(eng, path, obj, name):
        if obj.tag in ("project", "settings", "directory"):
            return SOpaque({"settings": "settings", "directory": "directory"}.get(name, "other"), fresh(name, I))
        return None
    c.opaque_attr = opaque_attr
    c.methods["joinpath"] = lambda eng, path, e, args, recv: SOpaque("joined", fresh("joined", I))

    def m_resolve(eng, path, e, args, recv):
        _may_raise(eng, path, "resolve", LIB_RAISES["resolve"])
        return SStr(fresh("resolved_path", S))
    c.methods["resolve"] = m_resolve
    local_raises = raises_of_function("ford.external_project", "modules_from_local")

    def modules_from_local(eng, path, e, args, recv):
        _may_raise(eng, path, "modules_from_local", local_raises)
        return SOpaque("json", fresh("json", I))
    c.calls["modules_from_local"] = modules_from_local

    # values of unknown shape: `in`, subscripting and iterating may raise what a mis-shaped JSON value raises
    def opaque_contains(eng, path, container, item, e):
        if container.tag == "json":
            _may_raise(eng, path, "in", ("TypeError",))
            return fresh("has_metadata", B)
        return None
    c.opaque_contains = opaque_contains

    def opaque_index(eng, path, container, idx, e):
        if container.tag == "json":
            _may_raise(eng, path, "subscript", ("KeyError", "TypeError"))
            return SOpaque("json", fresh("json", I))
        return None
    c.opaque_index = opaque_index

    def it(eng, path, v, it_e):
        if isinstance(v, SOpaque) and v.tag == "json":
            _may_raise(eng, path, "iter", ("TypeError",))
            return _OpaqueIter("jsonitem")
        if isinstance(v, SList):
            return None
        return None
    c.iters.append(it)

    def dict2obj(eng, path, e, args, recv):
        kw = {k.arg: eng.ev(path, k.value) for k in e.keywords}
        url = args[2] if len(args) > 2 else kw.get("url")
        remote = args[4] if len(args) > 4 else kw.get("remote")
        if url is None or remote is None or not isinstance(url, (SStr, SConst)):
            raise EngineError("dict2obj call without url / remote")
        u = eng.to_str(path, url)
        r = eng.truth(path, remote)
        eng.oblige(path, z3.Implies(r, z3.SuffixOf(z3.StringVal("/"), u)), "pre.dict2obj.remote_base_ends_with_a_slash", "pre",
                   "dict2obj(.., url, remote=True): the base handed to urljoin ends with '/', so the last component of the configured URL is kept")
        eng.oblige(path, z3.Implies(r, URLJOIN(u, z3.StringVal("modules.json")) == eng.to_str(path, path.env["__fetched"])) if "__fetched" in path.env else z3.Not(r),
                   "pre.dict2obj.same_base_as_the_description_was_fetched_from", "pre",
                   "the URLs of a remote project's entities are re-based on the location its modules.json was fetched from")
        eng.oblige(path, r == path.env["__remote0"].t, "pre.dict2obj.remote_flag_is_the_scheme_test", "pre", "remote is passed exactly when the configured URL is an http(s) URL")
        _may_raise(eng, path, "dict2obj", MIS_SHAPED)
        return SOpaque("entity", fresh("entity", I))
    c.calls["dict2obj"] = dict2obj

    # ghost state: what was fetched, and the scheme test of the configured URL
    orig_urlopen = c.calls["urlopen"]

    def urlopen_ghost(eng, path, e, args, recv):
        path.env["__fetched"] = SStr(eng.to_str(path, args[0]))
        return orig_urlopen(eng, path, e, args, recv)
    c.calls["urlopen"] = urlopen_ghost

    def setup(eng, path):
        path.env["__remote0"] = SBool(z3.InRe(eng.to_str(path, path.env["url"]), REMOTE_L))
    c.extra_setup.append(setup)
    c.loop(0, invariants=[("true", lambda v: z3.BoolVal(True))], variant=lambda v: v.it.length(v._p) - v.k)
    c.assumed.append("library contracts (assumed): " + "; ".join(f"{k} may raise {', '.join(v)}" for k, v in LIB_RAISES.items()) +
                     "; using a decoded JSON value of unknown shape (in, [..], iteration) and dict2obj on it may raise " + ", ".join(MIS_SHAPED) +
                     "; Path.resolve()'s RuntimeError on symlink loops (Python < 3.13) is not modelled")
    c.no_raise = True
    c.z3_timeout_ms, c.cvc5_on_unknown = 5000, True
    return c


# ------------------------------------------------------------------ structural obligations
def structural(prop="C16"):
    out = []
    # 1. obj2dict exports './' + get_url()
    fn = loader.find_def("ford.external_project", "obj2dict")
    ok, seen = False, None
    for n in ast.walk(fn):
        if isinstance(n, ast.Dict):
            for k, v in zip(n.keys, n.values):
                if isinstance(k, ast.Constant) and k.value == "external_url":
                    seen = ast.unparse(v)
                    if isinstance(v, ast.IfExp) and isinstance(v.orelse, ast.Constant) and v.orelse.value == "" and "visible" in ast.unparse(v.test):
                        v = v.body          # an entity whose page is not written is exported without a URL (the empty string: dict2obj keeps it empty)
                    ok = (isinstance(v, ast.JoinedStr) and len(v.values) == 2 and isinstance(v.values[0], ast.Constant) and v.values[0].value == EXPORT_PREFIX
                          and isinstance(v.values[1], ast.FormattedValue) and ast.unparse(v.values[1].value) == "intObj.get_url()")
    from contracts import astform as _af
    r_url = OR(id=f"{prop}.S.obj2dict.exports_dot_slash_relative_url", status=PROVED, kind="S", target="ford.external_project.obj2dict", role="post", backend="ast",
               desc="the exported external_url of an entity is './' followed by its get_url() (the form whose first component dict2obj strips: hypothesis of the round-trip postcondition), "
                    "or empty for an entity whose page is not written",
               witness=None if ok else {"external_url expression": seen})
    out.append(_af.decide(r_url, ok, lambda: __import__("bounded.c16", fromlist=["x"]).search(("end_to_end", "remote"))))
    # 1b. obj2dict exports list attributes filtered by accessibility
    # (the filter is *evaluated*, in the module's own namespace, on one item of every kind that matters - a name, entities that are public / protected / private, an entity
    #  without a permission: whatever the filter is called or however it is spelled, these five answers are its meaning for the property)
    comps = [n for n in ast.walk(fn) if isinstance(n, ast.ListComp) and isinstance(n.elt, ast.Call) and ast.unparse(n.elt.func) == "obj2dict" and len(n.generators) == 1]
    okf, seenf = False, [ast.unparse(c) for c in comps]
    if len(comps) == 1 and isinstance(comps[0].generators[0].target, ast.Name) and comps[0].generators[0].ifs:
        g = comps[0].generators[0]
        cond = g.ifs[0] if len(g.ifs) == 1 else ast.BoolOp(op=ast.And(), values=list(g.ifs))
        lam = ast.Expression(body=ast.Lambda(args=ast.arguments(posonlyargs=[], args=[ast.arg(arg=g.target.id)], kwonlyargs=[], kw_defaults=[], defaults=[]), body=cond))
        ast.fix_missing_locations(lam)
        try:
            flt = eval(compile(lam, "<obj2dict filter>", "eval"), dict(vars(loader.import_repo("ford.external_project"))))
            E = lambda **kw: type("Entity", (), kw)()
            got = [bool(flt(x)) for x in ("a_name", E(permission="public"), E(permission="protected"), E(permission="private"), E())]
            okf = got == [True, True, True, False, True]
            seenf = {"filter": ast.unparse(cond), "answers for (name, public, protected, private, no permission)": got}
        except Exception as e:
            seenf = {"filter": ast.unparse(cond), "evaluation failed": f"{type(e).__name__}: {e}"}
    from contracts import astform
    rf = OR(id=f"{prop}.S.obj2dict.lists_hold_accessible_entities_only", status=PROVED, kind="S", target="ford.external_project.obj2dict", role="post", backend="ast+python",
            desc="the entity lists of an exported module / type are filtered to entries whose accessibility is public or protected (names of unresolved entities pass as they are)",
            witness=None if okf else {"list comprehensions over obj2dict(item)": seenf})

    def _export():
        from bounded import c16
        bad = c16.export_with_private_display()
        return {"confirmed": True, "input": "project A of the C16 stand-in, documented with display: public private protected", "actual": bad[:5], "expected": "modules.json holds accessible entities only",
                "how": "real FORD run with externalize: true; bounded.c16.export_with_private_display"} if bad else None
    out.append(astform.decide(rf, okf, _export))
    # 2. search order of Project.find without a kind: local collections before external ones
    fp = loader.import_repo("ford.fortran_project")
    order = list(dict.fromkeys(fp.LINK_TYPES.values()))
    first_ext = min([i for i, c in enumerate(order) if c.startswith("ext")], default=len(order))
    late_local = [c for c in order[first_ext:] if not c.startswith("ext")]
    out.append(OR(id=f"{prop}.S.LINK_TYPES.local_collections_before_external", status=PROVED if not late_local else REFUTED, kind="S", role="post", backend="python",
                  target="ford.fortran_project.LINK_TYPES", desc="in the order in which Project.find chains the collections, every collection of the project's own entities "
                  "comes before every collection of external entities", witness=None if not late_local else {"order": order, "searched after an external collection": late_local}))
    # 3. ... and Project.find does chain them in that order and takes the first match
    src = ast.unparse(loader.find_def("ford.fortran_project", "Project.find"))
    import re as _re
    uses = bool(_re.search(r"chain\(\*\(getattr\(self, (\w+)\) for \1 in LINK_TYPES\.values\(\)\)\)", src)) and bool(_re.search(r"_find_in_list\(\w+, name\)", src))
    out.append(OR(id=f"{prop}.S.Project.find.chains_LINK_TYPES_in_order", status=PROVED if uses else UNKNOWN, kind="S", role="pre", backend="ast", target="ford.fortran_project.Project.find",
                  desc="Project.find searches chain(*(getattr(self, c) for c in LINK_TYPES.values())) with _find_in_list (first match; contract C16.A._find_in_list)",
                  detail="" if uses else "Project.find no longer has the shape this obligation is stated over"))
    # 4. external entities enter the project's lists only through dict2obj / extra_mods (nothing appends to the local lists)
    d2o = loader.find_def("ford.external_project", "dict2obj")
    ents = {k: v.__name__ for k, v in loader.import_repo("ford.external_project").ENTITIES.items()}
    sf = loader.import_repo("ford.sourceform")
    wrong = {k: getattr(sf, v)._project_list for k, v in ents.items() if not getattr(sf, v)._project_list.startswith("ext")}
    out.append(OR(id=f"{prop}.S.ENTITIES.project_lists_are_external", status=PROVED if not wrong else REFUTED, kind="S", role="post", backend="python", target="ford.external_project.ENTITIES",
                  desc="every class dict2obj instantiates registers itself in an ext* list of the project, never in a list of the project's own entities", witness=wrong or None))
    return out


def urljoin_lemma(prop="C16"):
    """bounded: urllib.parse.urljoin(base, rel) == base + rel for slash-terminated http(s) bases and relative URLs as get_url builds them"""
    from urllib.parse import urljoin
    import itertools
    bases = ["http://h/", "https://example.org/", "https://example.org/docs/", "https://example.org/a/b/c/", "http://h:8080/x/", "https://h/a.b/"]
    rels = ["module/m.html", "type/t.html#variable-x", "proc/p~2.html", "interface/gen.html#moduleprocedure-s", "sourcefile/a.f90.html", "namelist/n.html#namelist-n"]      # get_url never builds an empty fragment (urljoin drops those)
    bad = [(b, r, urljoin(b, r)) for b, r in itertools.product(bases, rels) if urljoin(b, r) != b + r]
    nos = [(b[:-1], r, urljoin(b[:-1], r)) for b, r in itertools.product(bases[2:], rels[:1]) if urljoin(b[:-1], r) == b + r]
    r = OR(id=f"{prop}.Bd.urljoin.slash_terminated_base", status=REFUTED if bad or nos else PROVED, kind="Bd", role="bounded", target="urllib.parse.urljoin", backend="enumeration",
           desc="library lemma used by the remote re-basing contract: for a base ending in '/', urljoin(base, rel) is base + rel; without the '/' the last component is lost",
           bound=f"{len(bases) * len(rels)} (base, relative URL) pairs", cases=len(bases) * len(rels))
    if bad or nos:
        r.witness = {"counterexamples": (bad or nos)[:3]}
        r.replay = {"confirmed": True, "actual": (bad or nos)[:3], "how": "urllib.parse.urljoin"}
    return [r]


def find_used_modules_recursion(prop="C06", replay=None):
    """find_used_modules reaches every scope that can hold USE statements below the entity it is given: its contained procedures (`entity.routines`) and, for every interface
    block, the single procedure of a non-generic block (`interface.procedure`) or each interface body of a generic block (`interface.routines`).  A scope that is not
    visited keeps the *names* of the modules it uses, and FortranCodeUnit.correlate skips those: nothing is imported there."""
    import ast
    from harness import loader
    from harness.core import OR, PROVED, REFUTED, UNKNOWN
    fn = loader.find_def("ford.fortran_project", "find_used_modules")
    out = []

    def recursive_call_on(node, arg):
        return any(isinstance(c, ast.Call) and isinstance(c.func, ast.Name) and c.func.id == "find_used_modules" and c.args and ast.unparse(c.args[0]) == arg for c in ast.walk(node))
    loops = [n for n in fn.body if isinstance(n, ast.For)]
    r_loop = [l for l in loops if ast.unparse(l.iter) == "entity.routines" and isinstance(l.target, ast.Name) and recursive_call_on(l, l.target.id)]
    ok = len(r_loop) == 1
    out.append(OR(id=f"{prop}.S.find_used_modules.recurses_into_contained_procedures", status=PROVED if ok else REFUTED, kind="S", role="post", backend="ast",
                  target="ford.fortran_project.find_used_modules", desc="`for procedure in entity.routines: find_used_modules(procedure, ...)` at the top level of the function"))
    i_loop = [l for l in loops if "interfaces" in ast.unparse(l.iter) and isinstance(l.target, ast.Name)]
    ok1 = ok2 = False
    if len(i_loop) == 1:
        v = i_loop[0].target.id
        # the procedure of the block, read directly or through a name bound to it inside the loop (`if procedure := getattr(interface, "procedure", None)`)
        aliases = [f"{v}.procedure"]
        for n in ast.walk(i_loop[0]):
            tgt, val = (n.target, n.value) if isinstance(n, ast.NamedExpr) else ((n.targets[0], n.value) if isinstance(n, ast.Assign) and len(n.targets) == 1 else (None, None))
            if isinstance(tgt, ast.Name) and val is not None and (f"{v}.procedure" in ast.unparse(val) or f"getattr({v}, 'procedure'" in ast.unparse(val)):
                aliases.append(tgt.id)
        ok1 = any(recursive_call_on(i_loop[0], a) for a in aliases)
        inner = [n for n in ast.walk(i_loop[0]) if isinstance(n, ast.For) and ast.unparse(n.iter) == f"{v}.routines" and isinstance(n.target, ast.Name) and recursive_call_on(n, n.target.id)]
        ok2 = len(inner) == 1
    for tag, okx, what in (("the_procedure_of_a_non_generic_interface", ok1, "`find_used_modules(interface.procedure, ...)`"),
                           ("the_bodies_of_a_generic_interface", ok2, "`for procedure in interface.routines: find_used_modules(procedure, ...)`")):
        r = OR(id=f"{prop}.S.find_used_modules.recurses_into_{tag}", status=PROVED if okx else REFUTED, kind="S", role="post", backend="ast", target="ford.fortran_project.find_used_modules",
               desc=f"{what} inside the loop over the entity's interface blocks")
        if not okx:
            r.detail = "USE statements in those interface bodies are never matched to module objects: nothing is imported into them"
            if replay:
                r.replay = replay()
        out.append(r)
    return out


def find_used_modules_lookup(prop="C06", replay=None):
    """a USE statement names the project's own module of that name when there is one; the modules FORD merely knows about (intrinsic modules, `extra_mods`, modules of external
    projects) come after.  Recognised form of the lookup in find_used_modules:  `for candidate in chain(modules, external_modules):` (project modules first) with the single
    statement `if <folded names equal>: dependency[0] = candidate; break` - the first match wins - and no other assignment to `dependency[0]`."""
    import ast
    from harness import loader
    from harness.core import OR, PROVED, REFUTED, UNKNOWN
    oid = f"{prop}.S.find_used_modules.project_modules_are_looked_up_before_external_ones"
    fn = loader.find_def("ford.fortran_project", "find_used_modules")
    stores = [n for n in ast.walk(fn) if isinstance(n, ast.Assign) and any(isinstance(t, ast.Subscript) and ast.unparse(t) == "dependency[0]" for t in n.targets)]
    loops = [n for n in ast.walk(fn) if isinstance(n, ast.For) and ast.unparse(n.iter).replace("itertools.", "") == "chain(modules, external_modules)" and isinstance(n.target, ast.Name)]
    ok = False
    if len(loops) == 1 and len(stores) == 1:
        l = loops[0]
        if len(l.body) == 1 and isinstance(l.body[0], ast.If) and not l.body[0].orelse and not l.orelse:
            i = l.body[0]
            ok = (stores[0] in i.body and isinstance(i.body[-1], ast.Break) and ast.unparse(stores[0].value) == l.target.id
                  and isinstance(i.test, ast.Compare) and len(i.test.ops) == 1 and isinstance(i.test.ops[0], ast.Eq))
    r = OR(id=oid, status=PROVED if ok else UNKNOWN, kind="S", role="post", backend="ast", target="ford.fortran_project.find_used_modules",
           desc="`for candidate in chain(modules, external_modules): if <names equal>: dependency[0] = candidate; break`: the project's modules are searched first and the first match wins")
    if not ok:
        hit = replay() if replay else None
        r.detail = "the lookup of a used module's name is not of the recognised first-match form"
        if hit:
            r.status, r.replay = REFUTED, hit
            r.detail += ": a module of the project is shadowed by an intrinsic / extra / external module of the same name"
    return [r]


def dict2obj_constructs(prop="C16", replay=None):
    """dict2obj turns one description of modules.json into one *new* entity object carrying that description's URL.  Names are unique only within a scope of the exporting
    project (A may have `init` in two modules, `n` in two types), so an object built for one description must never be handed out for another: every `return` of dict2obj
    returns the object constructed in the same call."""
    import ast
    from harness import loader
    from harness.core import OR, PROVED, REFUTED, UNKNOWN
    oid = f"{prop}.S.dict2obj.every_description_gets_an_object_of_its_own"
    fn = loader.find_def("ford.external_project", "dict2obj")
    built = {n.targets[0].id for n in ast.walk(fn) if isinstance(n, ast.Assign) and len(n.targets) == 1 and isinstance(n.targets[0], ast.Name) and isinstance(n.value, ast.Call)
             and ("ENTITIES[" in ast.unparse(n.value.func) or ast.unparse(n.value.func) in ("entity_class", "cls"))}
    rets = [n for n in ast.walk(fn) if isinstance(n, ast.Return) and n.value is not None]
    if not built or not rets:
        return [OR(id=oid, status=UNKNOWN, kind="S", target="ford.external_project.dict2obj", detail=f"constructor assignment / return not found ({sorted(built)}, {len(rets)} returns)")]
    # (a description that is a plain string - an unresolved name - is passed through unchanged)
    passthrough = {a.arg for a in fn.args.args}
    bad = [ast.unparse(r) for r in rets if not (isinstance(r.value, ast.Name) and (r.value.id in built or r.value.id in passthrough))]
    r = OR(id=oid, status=REFUTED if bad else PROVED, kind="S", role="post", backend="ast", target="ford.external_project.dict2obj",
           desc=f"every return of dict2obj hands out the object it constructed ({', '.join(sorted(built))})")
    if bad:
        r.witness = {"other_returns": bad}
        r.detail = "an object built for another description is returned: same-named entities of different scopes share one object and one URL"
        if replay:
            r.replay = replay()
    return [r]


def one_bad_project_costs_only_its_own_links(prop="C16", replay=None):
    """load_external_modules goes through all external projects of the settings: a project whose description cannot be read or used costs its own links and nothing else.  The loop
    body contains no `return` / `break`, and the handlers of its two `try` statements neither re-raise nor leave the loop."""
    import ast
    from harness import loader
    from harness.core import OR, PROVED, REFUTED, UNKNOWN
    oid = f"{prop}.S.load_external_modules.every_external_project_is_tried"
    fn = loader.find_def("ford.external_project", "load_external_modules")
    loops = [n for n in fn.body if isinstance(n, ast.For) and "external" in ast.unparse(n.iter)]
    if len(loops) != 1:
        return [OR(id=oid, status=UNKNOWN, kind="S", target="ford.external_project.load_external_modules", detail=f"loop over the external projects: {len(loops)} matches")]
    bad = [(n.lineno, type(n).__name__.lower()) for n in ast.walk(loops[0]) if isinstance(n, (ast.Return, ast.Break))]
    bad += [(n.lineno, "raise") for t in ast.walk(loops[0]) if isinstance(t, ast.Try) for h in t.handlers for n in ast.walk(h) if isinstance(n, ast.Raise)]
    # a nested loop's own `break` would be fine; there is none in the recognised code
    r = OR(id=oid, status=REFUTED if bad else PROVED, kind="S", role="post", backend="ast", target="ford.external_project.load_external_modules",
           desc="the loop over the external projects has no return / break, and its exception handlers do not raise: each project is tried whatever happened to the ones before it")
    if bad:
        r.witness = {"sites": bad}
        r.detail = f"line {bad[0][0]}: a `{bad[0][1]}` ends the import at the first project that fails: the projects listed after it lose all their links"
        if replay:
            r.replay = replay()
    return [r]

"""Engine B contracts on the USE-statement patterns (C06)."""
from __future__ import annotations
import z3
from harness import loader
from revc.oblig import RX, lang_nonempty
from revc import spec as SP
from revc.spec import kw, ws0, ws1, NAME, seq, alt, opt, star, lit, cls, notcls


def obligations(prop="C06"):
    sf = loader.import_repo("ford.sourceform")
    out = []
    use = RX("ford.sourceform.FortranContainer.USE_RE", sf.FortranContainer.USE_RE, "match")
    rest = alt(lit(""), seq(ws0, lit(","), star(notcls({10}))))
    nature = seq(ws0, lit(","), ws0, opt(kw("non_")), kw("intrinsic"), ws0)
    forms = seq(kw("use"), alt(ws1, seq(ws0, opt(nature), lit("::"), ws0)), NAME, rest)
    out.append(lang_nonempty(f"{prop}.B.USE_RE.spec_inhabited", use.name, forms, "USE statement forms"))
    out.append(use.covers(f"{prop}.B.USE_RE.covers_all_forms", forms,
                          "use m | use :: m | use, [non_]intrinsic :: m, each optionally followed by `, only: ...` or `, renames`, any letter case"))
    out.append(use.case_closed(f"{prop}.B.USE_RE.case_closed"))
    out.append(use.excludes(f"{prop}.B.USE_RE.excludes_assignment", seq(kw("use"), NAME, ws0, lit("="), star(notcls({10}))),
                            "`usex = 1` / `use_count = 0` are not USE statements"))
    g = use.covers(f"{prop}.B.USE_RE.mustfail", seq(kw("use"), NAME), "must-fail: `usem` without a blank is not covered", must_fail=True)
    g.kind = "G"
    out.append(g)
    only = RX("ford.sourceform.FortranModule.ONLY_RE", sf.FortranModule.ONLY_RE, "match")
    ospec = seq(ws0, lit(","), ws0, kw("only"), ws0, lit(":"), ws0, notcls({44, 10, 32, 9}), star(notcls({10})))
    out.append(only.covers(f"{prop}.B.ONLY_RE.covers", ospec, "`, only : x...` in any spacing/case is recognised as an ONLY clause"))
    out.append(only.covers(f"{prop}.B.ONLY_RE.covers_empty_list", seq(ws0, lit(","), ws0, kw("only"), ws0, lit(":"), ws0),
                           "`, only :` with an empty list is an ONLY clause too (it imports nothing)"))
    out.append(only.case_closed(f"{prop}.B.ONLY_RE.case_closed"))
    out.append(only.excludes(f"{prop}.B.ONLY_RE.excludes_rename", seq(ws0, lit(","), ws0, NAME, ws0, lit("=>"), ws0, NAME),
                             "a rename list `, a => b` is not an ONLY clause", within=SP.comp(seq(ws0, lit(","), ws0, kw("only"), ws0, lit(":"), star(notcls({10}))))))
    ren = RX("ford.sourceform.FortranModule.RENAME_RE", sf.FortranModule.RENAME_RE, "search")
    out.append(ren.covers(f"{prop}.B.RENAME_RE.covers", seq(ws0, NAME, ws0, lit("=>"), ws0, NAME, ws0), "`local => remote` with any spacing"))
    out.append(ren.excludes(f"{prop}.B.RENAME_RE.excludes_plain", seq(ws0, NAME, ws0), "a plain name is not a rename"))
    return out

"""C02 - statement and doc extraction depends only on Fortran lexical rules.  DESIGN.md section 6, C02."""
from __future__ import annotations
from harness.core import Task
from harness import loader
import time
from harness.core import Task, OR, PROVED, REFUTED
from contracts import scanners, rx_lex, readerblocks, masking
from contracts.common import *

PROP = "C02"
MARKERS = ["!", ">", "*", "|", "<", "#", "!>", "doc"]


def build(tier, seed):
    set_tier(tier)
    def _cont():
        from bounded import c02
        c = readerblocks.continuation(PROP)
        c.search_fn = lambda: c02.search(seed)
        return c
    _cont.__name__ = "continuation_block"
    def _pb():
        from bounded import c02
        c = readerblocks.pass_back(PROP)
        c.search_fn = lambda: c02.lookahead_cases()
        return c
    _pb.__name__ = "pass_back"
    def _lt():
        from bounded import c02
        c = readerblocks.literal_tail(PROP)
        c.search_fn = lambda: c02.search(seed)
        return c
    _lt.__name__ = "literal_tail_block"
    tasks = [a_task(PROP, _pb), a_task(PROP, scanners.unterminated), a_task(PROP, scanners.quote_split), a_task(PROP, scanners.literal_end), a_task(PROP, _cont), a_task(PROP, _lt)]

    def bd():
        from bounded import c02
        t0 = time.time()
        nr, rl = (400, 5) if tier == "quick" else (6000, 7)
        hit = c02.search(seed, nrandom=nr, randlen=rl)
        n, valid = c02.count_cases(seed, nrandom=nr, randlen=rl)
        r = OR(id=f"{PROP}.Bd.reader.line_sequences", status=REFUTED if hit else PROVED, kind="Bd", role="bounded", target="ford.reader.FortranReader (real)",
               desc="statement stream of the real reader vs executable free-form assembly rules (comment stripping with the literal state carried across "
                    "continuation lines, leading/trailing '&', comment and blank lines in between, ';' splitting)",
               bound=f"all sequences of <= 3 lines over {len(c02.LINES)} line kinds + {nr} seeded random sequences of {rl} lines: {n} sequences, {valid} valid free-form",
               cases=valid, seconds=time.time() - t0, backend="enumeration")
        if hit:
            r.replay, r.witness = hit, hit["input"]
        return [r]
    tasks.append(Task(f"{PROP}.Bd.reader", PROP, "reader", bd))

    def com_re():
        rd = loader.import_repo("ford.reader")
        return rx_lex.comment_regex_obligations(PROP, "ford.reader.FortranReader.COM_RE", rd.FortranReader.COM_RE, "")
    tasks.append(Task(f"{PROP}.B.COM_RE", PROP, "ford.reader.FortranReader.COM_RE", com_re))
    for m in MARKERS:
        def dm(m=m):
            rd = loader.import_repo("ford.reader")
            return rx_lex.comment_regex_obligations(PROP, "ford.reader._compile_docmark", rd._compile_docmark(m), m)
        tasks.append(Task(f"{PROP}.B.docmark[{m}]", PROP, "ford.reader._compile_docmark", dm))
    def _mask():
        from bounded import c02
        return masking.obligations(PROP, "ford.sourceform", c02.parser_literal_cases)
    tasks.append(Task(f"{PROP}.S.masking", PROP, "literal masking loops", _mask))
    def _lower():
        from contracts import plumbing
        from bounded import c02
        return plumbing.lower_after_masking(PROP, c02.parser_literal_cases)
    tasks.append(Task(f"{PROP}.S.lower", PROP, "FortranContainer.__init__", _lower))
    def _layout():
        from contracts import plumbing
        from bounded import c02
        return plumbing.include_before_every_statement(PROP, c02.include_and_doc_layouts) + plumbing.doc_lines_before_masking(PROP, c02.include_and_doc_layouts)
    tasks.append(Task(f"{PROP}.S.layout", PROP, "FortranReader.__next__ / FortranContainer.__init__", _layout))
    tasks.append(Task(f"{PROP}.S.placeholders", PROP, "QUOTES_RE.sub call sites", lambda: __import__("contracts.resub", fromlist=["x"]).placeholder_obligations(PROP, replay=lambda: __import__("bounded.c02", fromlist=["x"]).parser_literal_cases())))
    tasks.append(Task(f"{PROP}.S.literal_reinsertion", PROP, "line_to_variables",
                      lambda: __import__("contracts.declarations", fromlist=["x"]).literal_reinsertion_is_last(PROP)))
    tasks.append(Task(f"{PROP}.B.QUOTES_RE", PROP, "ford.sourceform.QUOTES_RE", lambda: rx_lex.quotes_re_obligations(PROP)))
    meta = {
        "trusted_base": TRUSTED_BASE,
        "assumptions": PYVC_ASSUMPTIONS + REVC_ASSUMPTIONS,
        "functions_under_contract": fn_meta([("ford.reader", "_contains_unterminated_string", None), ("ford.utils", "quote_split", None), ("ford.reader", "FortranReader.pass_back", None),
                                             ("ford.reader", "FortranReader.__next__", "block contract: `if len(line) == 0:` ... `linebuffer += line` inside `while not done` "
                                              "(continuation joining); inputs line (stripped), continued, linebuffer"),
                                             ("ford.reader", "FortranReader.__next__", "block contract: the `if in_quote:` statement that cuts the line at the end of a continued literal")]) +
        [{"constant": "ford.reader.FortranReader.COM_RE"}, {"constant": f"ford.reader._compile_docmark(m) for m in {MARKERS}"},
         {"constant": "ford.sourceform.QUOTES_RE"}, {"loops": "every `while QUOTES_RE.search(X[search_from:])` masking / re-insertion loop of ford/sourceform.py"}],
        "unverified_surroundings": ["FortranReader.__next__ as a whole (composition of its blocks)", "include handling", "preprocessor",
                                    "fixed-form entry (C14)", "FortranContainer.__init__ masking loop composition"],
        "explanation": "Every obligation is a VC generated from the current source of the named function (Engine A) or from CPython's parse of the "
                       "live pattern object (Engine B) and discharged by z3 for all inputs. exit 0 = every listed obligation discharged, not "
                       "'the property is established for FORD as a whole'.",
    }
    return tasks, meta

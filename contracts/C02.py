"""C02 - statement and doc extraction depends only on Fortran lexical rules.  DESIGN.md section 6, C02."""
from __future__ import annotations
from harness.core import Task
from harness import loader
from contracts import scanners, rx_lex
from contracts.common import *

PROP = "C02"
MARKERS = ["!", ">", "*", "|", "<", "#", "!>", "doc"]


def build(tier, seed):
    set_tier(tier)
    tasks = [a_task(PROP, scanners.unterminated), a_task(PROP, scanners.quote_split)]

    def com_re():
        rd = loader.import_repo("ford.reader")
        return rx_lex.comment_regex_obligations(PROP, "ford.reader.FortranReader.COM_RE", rd.FortranReader.COM_RE, "")
    tasks.append(Task(f"{PROP}.B.COM_RE", PROP, "ford.reader.FortranReader.COM_RE", com_re))
    for m in MARKERS:
        def dm(m=m):
            rd = loader.import_repo("ford.reader")
            return rx_lex.comment_regex_obligations(PROP, "ford.reader._compile_docmark", rd._compile_docmark(m), m)
        tasks.append(Task(f"{PROP}.B.docmark[{m}]", PROP, "ford.reader._compile_docmark", dm))
    tasks.append(Task(f"{PROP}.B.QUOTES_RE", PROP, "ford.sourceform.QUOTES_RE", lambda: rx_lex.quotes_re_obligations(PROP)))
    meta = {
        "trusted_base": TRUSTED_BASE,
        "assumptions": PYVC_ASSUMPTIONS + REVC_ASSUMPTIONS,
        "functions_under_contract": fn_meta([("ford.reader", "_contains_unterminated_string", None), ("ford.utils", "quote_split", None)]) +
        [{"constant": "ford.reader.FortranReader.COM_RE"}, {"constant": f"ford.reader._compile_docmark(m) for m in {MARKERS}"},
         {"constant": "ford.sourceform.QUOTES_RE"}],
        "unverified_surroundings": ["FortranReader.__next__ as a whole (composition of its blocks)", "include handling", "preprocessor",
                                    "fixed-form entry (C14)", "FortranContainer.__init__ masking loop composition"],
        "explanation": "Every obligation is a VC generated from the current source of the named function (Engine A) or from CPython's parse of the "
                       "live pattern object (Engine B) and discharged by z3 for all inputs. exit 0 = every listed obligation discharged, not "
                       "'the property is established for FORD as a whole'.",
    }
    return tasks, meta

"""C10 - distinct entities never share a page, anchor or copied file.  DESIGN.md section 6, C10."""
from __future__ import annotations
import ast, time
from harness.core import Task, OR, PROVED, REFUTED, UNKNOWN
from harness import loader
from contracts import names
from contracts.common import *

PROP = "C10"


def _get_name():
    from bounded import c10
    c = names.get_name(PROP)
    c.search_fn = c10.search
    return c


_get_name.__name__ = "get_name"


def bounded_tasks():
    def run():
        from bounded import c10
        t0 = time.time()
        hit = c10.search()
        r = OR(id=f"{PROP}.Bd.pipeline.name_reuse", status=REFUTED if hit else PROVED, kind="Bd", role="bounded",
               target="ford.sourceform.NameSelector (real), via Project(...)", desc="generated projects re-using names (case, modules, operators, unnamed units, submodule vs module)",
               bound=f"{c10.count_cases()} generated projects", cases=c10.count_cases(), seconds=time.time() - t0, backend="enumeration")
        if hit:
            r.replay, r.witness = hit, hit["input"]
        t1 = time.time()
        n, clash = c10.lemma_cases()
        r2 = OR(id=f"{PROP}.Bd.lemma.numbering_injective", status=REFUTED if clash else PROVED, kind="Bd", role="bounded", target="assumed string lemma",
                desc="stem~n is injective in (stem, n) for stems without '~' (the lemma the proof of get_name assumes)",
                bound="stems over {a,b,1,2} up to length 3, n <= 12", cases=n, seconds=time.time() - t1, backend="enumeration")
        if clash:
            r2.replay = {"confirmed": True, "input": clash}
        return [r, r2]
    return [Task(f"{PROP}.Bd", PROP, "bounded", run)]


def src_copy_task():
    """call-site obligation in Documentation.writeout: the destination of each source copy is an injective function of the source path"""
    def run():
        fn = loader.find_def("ford.output", "Documentation.writeout")
        hits = []
        for n in ast.walk(fn):
            if isinstance(n, ast.For) and "allfiles" in ast.unparse(n.iter):
                for c in ast.walk(n):
                    if isinstance(c, ast.Call) and ast.unparse(c.func) in ("shutil.copy", "shutil.copy2", "shutil.copyfile") and len(c.args) == 2:
                        hits.append((n, c))
        if len(hits) != 1:
            return [OR(id=f"{PROP}.S.writeout.src_copy.anchor", status=UNKNOWN, kind="S", target="ford.output.Documentation.writeout",
                       detail=f"expected exactly one source-copy call site, found {len(hits)}")]
        loop, call = hits[0]
        var = loop.target.id
        dest = call.args[1]
        attrs = {ast.unparse(a) for a in ast.walk(dest) if isinstance(a, ast.Attribute) and isinstance(a.value, ast.Name) and a.value.id == var}
        injective = bool(attrs) and attrs <= {f"{var}.path", f"{var}.ident", f"{var}.relative_path"}
        r = OR(id=f"{PROP}.S.writeout.src_copy.destination_injective", status=PROVED if injective else REFUTED, kind="S", role="pre",
               target="ford.output.Documentation.writeout", backend="ast",
               desc=f"copy destination `{ast.unparse(dest)}` determines the source file (uses {sorted(attrs)}; `name` is only the base name)")
        if not injective:
            from bounded import realrun
            files = {"src/a/x.f90": "module xa\nend module xa\n", "src/b/x.f90": "module xb\nend module xb\n"}
            proj = realrun.build_project(files, correlate=False)
            names_ = sorted((f.name, ) for f in proj.files)
            clash = len(proj.files) == 2 and proj.files[0].name == proj.files[1].name and proj.files[0].path != proj.files[1].path
            r.witness = {"files": files}
            r.replay = {"confirmed": clash, "input": {"files": files}, "actual": f"both copies go to src/{proj.files[0].name}" if clash else names_,
                        "expected": "two different destination files", "how": "Project(...) on two source directories holding x.f90"}
            r.known = "C10-src-basename"
        return [r]
    return Task(f"{PROP}.S.src_copy", PROP, "ford.output.Documentation.writeout", run)


def build(tier, seed):
    set_tier(tier)
    tasks = [a_task(PROP, _get_name), src_copy_task()] + bounded_tasks()
    meta = {
        "trusted_base": TRUSTED_BASE,
        "assumptions": PYVC_ASSUMPTIONS + [
            "assumed string lemma (undecided by z3 and cvc5 within 100 s; bounded-checked): stem~n == stem'~m <=> stem == stem' and n == m for stems without '~'",
            "stems (lower-cased names through the symbol replacement) contain no '~' (Fortran names and operator spellings never do)",
            "str.lower / str.replace are uninterpreted functions; item.get_dir() is a pure function of the item",
            "rep invariant of NameSelector assumed at entry on an arbitrary other registered item (Skolemised) and proved to be preserved: "
            "items[x] = numbered(stem(x), n_x), 1 <= n_x <= counts[dir(x)][stem(x)], equal (dir, stem) => different n; counters >= 1; the per-directory "
            "counter dicts are distinct objects",
        ],
        "functions_under_contract": fn_meta([("ford.sourceform", "NameSelector.get_name", None)]) +
        [{"call_site": "ford.output.Documentation.writeout: shutil.copy(src.path, out_dir/'src'/src.name)"}],
        "unverified_surroundings": ["anchor ids inside one page (urllib.parse.quote assumed injective)", "DocPage.outfile (C09)", "templates that hard-code src/<name>"],
        "explanation": "get_name is proved idempotent and injective per output directory for every NameSelector state satisfying its representation invariant, "
                       "and to preserve that invariant.",
    }
    return tasks, meta

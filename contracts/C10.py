"""C10 - distinct entities never share a page, anchor or copied file.  DESIGN.md section 6, C10."""
from __future__ import annotations
import ast, time
from harness.core import Task, OR, PROVED, REFUTED, UNKNOWN
from harness import loader
from contracts import names
from contracts.common import *

PROP = "C10"


def _get_name():
    from bounded import c10
    c = names.get_name(PROP)
    c.search_fn = c10.search
    return c


_get_name.__name__ = "get_name"


def bounded_tasks():
    def run():
        from bounded import c10
        t0 = time.time()
        hit = c10.search()
        r = OR(id=f"{PROP}.Bd.pipeline.name_reuse", status=REFUTED if hit else PROVED, kind="Bd", role="bounded",
               target="ford.sourceform.NameSelector (real), via Project(...)", desc="generated projects re-using names (case, modules, operators, unnamed units, submodule vs module)",
               bound=f"{c10.count_cases()} generated projects", cases=c10.count_cases(), seconds=time.time() - t0, backend="enumeration")
        if hit:
            r.replay, r.witness = hit, hit["input"]
        t1 = time.time()
        n, clash = c10.lemma_cases()
        r2 = OR(id=f"{PROP}.Bd.lemma.numbering_injective", status=REFUTED if clash else PROVED, kind="Bd", role="bounded", target="assumed string lemma",
                desc="stem~n is injective in (stem, n) for stems without '~' (the lemma the proof of get_name assumes)",
                bound="stems over {a,b,1,2} up to length 3, n <= 12", cases=n, seconds=time.time() - t1, backend="enumeration")
        if clash:
            r2.replay = {"confirmed": True, "input": clash}
        nq, qclash = c10.quote_lemma()
        r3 = OR(id=f"{PROP}.Bd.lemma.quote_injective", status=REFUTED if qclash else PROVED, kind="Bd", role="bounded", target="urllib.parse.quote (assumed library lemma)",
                desc="quote is injective and never yields '#': the lemma behind 'distinct identifiers give distinct anchors'", bound="words over 13 characters up to length 3", cases=nq,
                backend="enumeration")
        if qclash:
            r3.replay = {"confirmed": True, "input": qclash}
        t2 = time.time()
        sl = c10.source_links()
        r4 = OR(id=f"{PROP}.Bd.site.source_file_links", status=REFUTED if sl else PROVED, kind="Bd", role="bounded", target="ford.main (incl_src)",
                desc="the 'Source File' link of every entity page exists and serves the entity's own source file (capitalised file name, two directories)", bound="1 project", cases=1,
                seconds=time.time() - t2, backend="enumeration")
        if sl:
            r4.replay, r4.witness = sl, sl["input"]
        t3 = time.time()
        pf = c10.page_files()
        r5 = OR(id=f"{PROP}.Bd.site.page_files_and_procedure_ids", status=REFUTED if pf else PROVED, kind="Bd", role="bounded", target="ford.main (whole site)",
                desc="source files whose names differ only after the last dot or by directory, operator interfaces with dots, a generic interface with three interface bodies: one "
                     "file per page object, every link live, one id per specific procedure", bound="1 project", cases=1, seconds=time.time() - t3, backend="enumeration")
        if pf:
            r5.replay, r5.witness = pf, pf["input"]
        t4 = time.time()
        gf = c10.graph_files()
        r6 = OR(id=f"{PROP}.Bd.graphs.file_names", status=REFUTED if gf else PROVED, kind="Bd", role="bounded", target="ford.graphs.GraphManager.graph_all (real)",
                desc="a program, a module procedure and a type that share the name `convert`: every (entity, graph) pair is saved under a file name of its own", bound="1 project", cases=1,
                seconds=time.time() - t4, backend="enumeration")
        if gf:
            r6.replay, r6.witness = gf, gf["input"]
        return [r, r2, r3, r4, r5, r6]
    return [Task(f"{PROP}.Bd", PROP, "bounded", run)]


def _anchor():
    from bounded import c10
    from contracts import names
    c = names.anchor(PROP)
    c.search_fn = c10.search
    return c


_anchor.__name__ = "anchor"


def _object_page():
    from bounded import c10
    c = names.object_page(PROP)
    c.search_fn = c10.page_files
    return c


_object_page.__name__ = "object_page"


def _is_interface_procedure():
    from bounded import c10
    c = names.is_interface_procedure(PROP)
    c.search_fn = c10.page_files
    return c


_is_interface_procedure.__name__ = "is_interface_procedure"


def src_copy_task():
    """call-site obligation in Documentation.writeout: the destination of each source copy is an injective function of the source path"""
    def run():
        fn = loader.find_def("ford.output", "Documentation.writeout")
        hits = []
        for n in ast.walk(fn):
            if isinstance(n, ast.For) and "allfiles" in ast.unparse(n.iter):
                for c in ast.walk(n):
                    if isinstance(c, ast.Call) and ast.unparse(c.func) in ("shutil.copy", "shutil.copy2", "shutil.copyfile") and len(c.args) == 2:
                        hits.append((n, c))
        if len(hits) != 1:
            return [OR(id=f"{PROP}.S.writeout.src_copy.anchor", status=UNKNOWN, kind="S", target="ford.output.Documentation.writeout",
                       detail=f"expected exactly one source-copy call site, found {len(hits)}")]
        from contracts import astform
        loop, call = hits[0]
        var = loop.target.id
        dest = astform.inline(fn, call.args[1])
        attrs = {ast.unparse(a) for a in ast.walk(dest) if isinstance(a, ast.Attribute) and isinstance(a.value, ast.Name) and a.value.id == var}
        injective = bool(attrs) and attrs <= {f"{var}.path", f"{var}.ident", f"{var}.relative_path"}
        r = OR(id=f"{PROP}.S.writeout.src_copy.destination_injective", status=PROVED if injective else REFUTED, kind="S", role="pre",
               target="ford.output.Documentation.writeout", backend="ast",
               desc=f"copy destination `{ast.unparse(dest)}` determines the source file (uses {sorted(attrs)}; `name` is only the base name)")
        if not injective:
            from bounded import realrun
            files = {"src/a/x.f90": "module xa\nend module xa\n", "src/b/x.f90": "module xb\nend module xb\n"}
            proj = realrun.build_project(files, correlate=False)
            names_ = sorted((f.name, ) for f in proj.files)
            clash = len(proj.files) == 2 and proj.files[0].name == proj.files[1].name and proj.files[0].path != proj.files[1].path
            r.witness = {"files": files}
            r.replay = {"confirmed": clash, "input": {"files": files}, "actual": f"both copies go to src/{proj.files[0].name}" if clash else names_,
                        "expected": "two different destination files", "how": "Project(...) on two source directories holding x.f90"}
            r.known = "C10-src-basename"
        return [r] + link_copy_agreement(var, dest)
    return Task(f"{PROP}.S.src_copy", PROP, "ford.output.Documentation.writeout", run)


def link_copy_agreement(var, dest):
    """the pages link to the raw source as `src/<entity.filename>`; the copy must be written under that very name, or the link serves nothing / another file"""
    import os, re
    tdir = os.path.join(os.path.dirname(loader.module_path("ford.output")), "templates")
    exprs = []
    for name in sorted(os.listdir(tdir)):
        if name.endswith(".html"):
            for m in re.finditer(r"/src/\{\{\s*([^}]*?)\s*\}\}", open(os.path.join(tdir, name), encoding="utf-8").read()):
                exprs.append((name, m.group(1)))
    oid = f"{PROP}.S.writeout.src_copy.written_under_the_name_the_pages_link_to"
    if not exprs:
        return [OR(id=oid, status=UNKNOWN, kind="S", role="post", backend="ast+template", target="ford.output.Documentation.writeout", detail="no src/ link found in the templates")]
    # what the template expression denotes: <entity>.filename is the property FortranBase.filename = self.source_file.name
    linked = set()
    for tname, ex in exprs:
        attr = ex.split(".")[-1]
        if attr == "filename":
            prop = loader.find_def("ford.sourceform", "FortranBase.filename")
            rets = [ast.unparse(n.value) for n in ast.walk(prop) if isinstance(n, ast.Return)]
            linked.add(rets[0].replace("self.source_file.", "") if len(rets) == 1 and rets[0].startswith("self.source_file.") else f"?{rets}")
        else:
            linked.add(attr)
    last = dest
    # the last path component of the destination
    comp = ast.unparse(dest.right) if isinstance(dest, ast.BinOp) else ast.unparse(dest)
    written = comp.replace(f"{var}.", "") if comp.startswith(f"{var}.") else f"?{comp}"
    ok = linked == {written}
    r = OR(id=oid, status=PROVED, kind="S", role="post", backend="ast+template", target="ford.output.Documentation.writeout / templates",
           desc=f"the raw source of a file is written to src/<{written}> and the pages link to src/<{', '.join(sorted(linked))}> of the entity's source file: the same attribute")
    if not ok:
        r.witness = {"written as": comp, "linked as": exprs}
    from contracts import astform
    from bounded import c10
    return [astform.decide(r, ok, c10.source_links)]


def build(tier, seed):
    set_tier(tier)
    tasks = [standin_task(PROP, "projects.same_names", lambda: __import__("bounded.c16", fromlist=["x"]).search(("same_names",)), "ford.main on project A (externalize) then project B (external)",
                          "A has two modules with a procedure of the same name and two types with equally named components and bindings: modules.json gives each its own URL and B's links "
                          "go to the page of the entity used", "1 project pair"),
             Task(f"{PROP}.S.source_copies", PROP, "Documentation.writeout", lambda: __import__("contracts.plumbing", fromlist=["x"]).source_copies(PROP, lambda: __import__("bounded.c10", fromlist=["x"]).source_links())),
             Task(f"{PROP}.S.selector_tables", PROP, "NameSelector", lambda: names.selector_tables_private(PROP, lambda: __import__("bounded.c10", fromlist=["x"]).page_files())),
             Task(f"{PROP}.S.ident", PROP, "ident properties", lambda: names.ident_obligation(PROP, lambda: __import__("bounded.c10", fromlist=["x"]).page_files())),
             a_task(PROP, _get_name), a_task(PROP, _anchor), a_task(PROP, _object_page), a_task(PROP, _is_interface_procedure), src_copy_task(),
             Task(f"{PROP}.S.graph_ident", PROP, "FortranGraph.__init__", lambda: names.graph_ident_obligation(PROP, lambda: __import__("bounded.c10", fromlist=["x"]).graph_files()))] + bounded_tasks()
    meta = {
        "trusted_base": TRUSTED_BASE,
        "assumptions": PYVC_ASSUMPTIONS + [
            "assumed string lemma (undecided by z3 and cvc5 within 100 s; bounded-checked): stem~n == stem'~m <=> stem == stem' and n == m for stems without '~'",
            "stems (lower-cased names through the symbol replacement) contain no '~' (Fortran names and operator spellings never do)",
            "str.lower / str.replace are uninterpreted functions; item.get_dir() is a pure function of the item",
            "rep invariant of NameSelector assumed at entry on an arbitrary other registered item (Skolemised) and proved to be preserved: "
            "items[x] = numbered(stem(x), n_x), 1 <= n_x <= counts[dir(x)][stem(x)], equal (dir, stem) => different n; counters >= 1; the per-directory "
            "counter dicts are distinct objects",
        ],
        "functions_under_contract": fn_meta([("ford.sourceform", "NameSelector.get_name", None), ("ford.sourceform", "FortranBase.anchor", None), ("ford.output", "DocPage.object_page", None), ("ford.sourceform", "FortranProcedure.is_interface_procedure", None)]) +
        [{"call_site": "ford.output.Documentation.writeout: shutil.copy(src.path, out_dir/'src'/src.name)"}],
        "unverified_surroundings": ["anchor ids inside one page (urllib.parse.quote assumed injective)", "DocPage.outfile (C09)", "templates that hard-code src/<name>"],
        "explanation": "get_name is proved idempotent and injective per output directory for every NameSelector state satisfying its representation invariant, "
                       "and to preserve that invariant.",
    }
    return tasks, meta

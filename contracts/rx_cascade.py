"""Engine B contracts on the statement-dispatch cascade of FortranContainer.__init__ (C01, C08)."""
from __future__ import annotations
import re, time
import z3
from harness.core import OR, PROVED, REFUTED, UNKNOWN, ERROR
from harness import loader
from revc.oblig import RX, lang_nonempty, _solve, _matches
from revc.translate import lang, Unsupported, re_full
from revc import spec as SP
from specs import stmts as ST
from contracts.cascade import read_cascade, live_patterns

KIND_RE = {"end": "END_RE", "module": "MODULE_RE", "submodule": "SUBMODULE_RE", "program": "PROGRAM_RE", "blockdata": "BLOCK_DATA_RE",
           "subroutine": "SUBROUTINE_RE", "function": "FUNCTION_RE", "attr_stmt": "ATTRIB_RE", "parameter_stmt": "ATTRIB_RE|PARAMETER_RE", "variable": "VARIABLE_RE",
           "enumerator": "VARIABLE_RE", "type_def": "TYPE_RE", "interface": "INTERFACE_RE", "modproc": "MODPROC_RE", "enum": "ENUM_RE",
           "boundproc": "BOUNDPROC_RE", "final": "FINAL_RE", "common": "COMMON_RE", "namelist": "NAMELIST_RE", "block": "BLOCK_RE",
           "associate": "ASSOCIATE_RE", "use": "USE_RE", "format": "FORMAT_RE"}
# context in which a statement kind is legal: is the `incontains` flag set, is the container an INTERFACE block
CTX = {k: {"incontains": False, "in_interface": False} for k in KIND_RE}
for k in ("subroutine", "function", "end"):
    CTX[k] = {"incontains": None, "in_interface": None}          # both
for k in ("boundproc", "final"):
    CTX[k] = {"incontains": True, "in_interface": False}
CTX["modproc"] = {"incontains": None, "in_interface": None}


def guard_possible(guard: str, ctx) -> bool:
    """can the non-regex part of an earlier branch's condition be true in this context? (unknown guard text => True, conservative)"""
    if not guard:
        return True
    ok = True
    for part in guard.split(" and "):
        part = part.strip()
        if part == "incontains":
            ok = ok and ctx["incontains"] is not False
        elif part == "blocklevel == 0":
            ok = ok and True
        elif "isinstance(self, FortranInterface)" in part:
            ok = ok and True        # handled by restricting the language below
    return ok


def branch_language(b, pats, ctx):
    """effective language of an earlier branch in a context (MODPROC_RE fires outside interfaces only for `module procedure`)"""
    L = lang(pats[b.regex], mode=b.mode)
    if b.regex == "MODPROC_RE" and ctx["in_interface"] is False:
        L = z3.Intersect(L, SP.seq(SP.kw("module"), SP.ws1, ST.TAIL))
    return L


def kind_obligations(prop, kind):
    pats = live_patterns()
    cas = read_cascade()
    S = ST.KINDS[kind]
    rname = KIND_RE[kind]
    target = f"ford.sourceform.FortranContainer.{rname}"
    out = [lang_nonempty(f"{prop}.B.{kind}.spec_inhabited", target, S, f"statement kind '{kind}'")]
    rnames = [r for r in rname.split("|") if r in pats]
    mine = [b for b in cas if b.regex in rnames]
    if not mine:
        return out + [OR(id=f"{prop}.B.{kind}.branch", status=UNKNOWN, kind="B", target=target, detail=f"no cascade branch uses {rname}")]
    me = mine[0]
    same_branch = [b for b in mine if b.idx == me.idx]
    try:
        Lu = z3.Union(*[lang(pats[b.regex], mode=b.mode) for b in same_branch]) if len(same_branch) > 1 else lang(pats[me.regex], mode=me.mode)
        Lfull = z3.Union(*[lang(pats[b.regex], mode="fullmatch") for b in same_branch]) if len(same_branch) > 1 else lang(pats[me.regex], mode="fullmatch")
    except Unsupported as e:
        return out + [OR(id=f"{prop}.B.{kind}.covers", status=UNKNOWN, kind="B", target=target, detail=f"unsupported: {e}")]
    for suffix, L, what in (("covers", Lu, "is accepted by"), ("covers_fully", Lfull, "can be consumed to its end by")):
        st, w, dt, smt = _solve(lambda s: [z3.InRe(s, S), z3.Not(z3.InRe(s, L))])
        r = OR(id=f"{prop}.B.{kind}.{suffix}", status=st, kind="B", target=target, seconds=dt, smt=smt, backend="z3-seq",
               desc=f"every spelling of a '{kind}' statement in the supported subset {what} {rname}")
        if st == REFUTED:
            mode = "fullmatch" if suffix == "covers_fully" else me.mode
            real = any(_matches(pats[b.regex], mode, w) for b in same_branch)
            r.witness = {"string": w}
            r.replay = {"confirmed": not real, "contradicted": real, "input": w, "actual": f"{rname}.{mode}({w!r}) is None", "expected": "a match"}
        elif st == UNKNOWN:
            r.detail = str(w)
        out.append(r)
    ctx = CTX[kind]
    for b in cas:
        if b.idx >= me.idx:
            break
        if b.kind == "literal":
            continue
        if not guard_possible(b.guard, ctx):
            continue
        try:
            Le = branch_language(b, pats, ctx)
        except Unsupported as e:
            out.append(OR(id=f"{prop}.B.{kind}.first_match.not_{b.regex}", status=UNKNOWN, kind="B", target=target, detail=f"unsupported: {e}"))
            continue
        st, w, dt, smt = _solve(lambda s: [z3.InRe(s, S), z3.InRe(s, Le)])
        r = OR(id=f"{prop}.B.{kind}.first_match.not_{b.regex}", status=st, kind="B", target=target, seconds=dt, smt=smt, backend="z3-seq", role="post",
               desc=f"no '{kind}' statement is captured by the earlier branch #{b.idx} ({b.regex}.{b.mode}{' and ' + b.guard if b.guard else ''})")
        if st == REFUTED:
            real = _matches(pats[b.regex], b.mode, w)
            r.witness = {"string": w}
            r.replay = {"confirmed": real, "contradicted": not real, "input": w, "actual": f"{b.regex}.{b.mode}({w!r}) matches: the statement is dispatched as {b.regex}",
                        "expected": f"dispatched by {rname}"}
        elif st == UNKNOWN:
            r.detail = str(w)
        out.append(r)
    return out


def case_closed_obligations(prop):
    pats = live_patterns()
    out = []
    for b in read_cascade():
        if b.kind != "regex":
            continue
        rx = RX(f"ford.sourceform.FortranContainer.{b.regex}", pats[b.regex], b.mode)
        out.append(rx.case_closed(f"{prop}.B.{b.regex}.case_closed", "dispatch is independent of keyword / identifier letter case"))
    return out


def executable_exclusions(prop):
    """nothing undeclared is reported: executable statement shapes (whose first identifier is not a declaration keyword) are matched by
    no declaration / unit-header pattern; END_RE does not take construct ends (end do, end if ...) for unit ends"""
    pats = live_patterns()
    out = []
    EX = z3.Intersect(ST.EXECUTABLE, SP.comp(ST.starts_with_keyword()))
    out.append(lang_nonempty(f"{prop}.B.executable.spec_inhabited", "cascade", EX, "executable statements not starting with a declaration keyword"))
    for b in read_cascade():
        # BOUNDPROC_RE / FINAL_RE are guarded by `incontains`: no executable statement follows CONTAINS, so they never see one
        if b.kind != "regex" or b.regex in ("CALL_RE", "SUBCALL_RE", "ARITH_GOTO_RE", "FORMAT_RE", "BLOCK_RE", "ASSOCIATE_RE", "BOUNDPROC_RE", "FINAL_RE"):
            continue
        rx = RX(f"ford.sourceform.FortranContainer.{b.regex}", pats[b.regex], b.mode)
        out.append(rx.excludes(f"{prop}.B.{b.regex}.excludes_executable", EX, "assignments, calls, control constructs and I/O statements are not declarations"))
    rx = RX("ford.sourceform.FortranContainer.END_RE", pats["END_RE"], "match")
    out.append(rx.excludes(f"{prop}.B.END_RE.excludes_construct_ends", ST.END_CONSTRUCTS, "`end do`, `endif`, `end select` ... do not close a program unit"))
    ty = RX("ford.sourceform.FortranContainer.TYPE_RE", pats["TYPE_RE"], "match")
    out.append(ty.excludes(f"{prop}.B.TYPE_RE.excludes_type_guard", SP.seq(SP.kw("type"), SP.ws1, SP.kw("is"), SP.ws0, ST.PAR2), "`type is (...)` is not a type definition"))
    va = RX("ford.sourceform.FortranContainer.VARIABLE_RE", pats["VARIABLE_RE"], "match")
    out.append(va.excludes(f"{prop}.B.VARIABLE_RE.excludes_type_guards", SP.alt(SP.seq(ST.kws("type", "class"), SP.ws1, SP.kw("is"), SP.ws0, ST.PAR2),
                                                                               SP.seq(SP.kw("class"), SP.ws1, SP.kw("default"))),
                           "`type is (...)`, `class is (...)`, `class default` are not declarations"))
    return out


def ordered_alt_obligations(prop):
    from revc.oblig import ordered_alternation
    pats = live_patterns()
    out = []
    seen = set()
    for b in read_cascade():
        if b.kind != "regex" or b.regex in seen:
            continue
        seen.add(b.regex)
        out += ordered_alternation(prop, f"ford.sourceform.FortranContainer.{b.regex}", pats[b.regex], b.mode)
    return out

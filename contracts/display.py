"""Engine A contracts for the display-selection mechanism (C05): _should_display, filter_display, prune."""
from __future__ import annotations
import ast
import z3
from pyvc.contract import *
from pyvc.engine import fresh, ListIter
from pyvc.values import *
from contracts.heapmodel import FIELDS, class_model
from harness import loader

I, S = z3.IntSort(), z3.StringSort()


def H(v, f):
    """current array of field f"""
    return v._e.field_array(v._p, f)


def sel(arr, o):
    return z3.Select(arr, o)


def lst(v, f, o, kind="ref"):
    return v.heap.list_get(SList(sel(H(v, f), o), kind))


def selected(v, selfref, x):
    """the oracle: x is selected for display below selfref (display options of DESIGN C05)"""
    hide = sel(H(v, "hide_undoc"), sel(H(v, "settings"), selfref))
    docs = lst(v, "doc_list", x, "str")
    disp = lst(v, "display", selfref, "str")
    # (hide_undoc is about the entities of this project: one that was imported from an external project is documented over there and carries no comment here)
    external = z3.Select(v._e.has_array(v._p, "external_url"), x)
    return z3.And(z3.Or(z3.Not(hide), external, z3.Length(docs) > 0), z3.Contains(disp, z3.Unit(SID(sel(H(v, "permission"), x)))))


def base(c: Contract):
    c.fields = dict(FIELDS)
    c.classes = class_model()
    return c


# ---------------------------------------------------------------- _should_display
def should_display(prop="C05"):
    c = base(Contract("ford.sourceform", "FortranBase._should_display", prop))
    c.param("self", TRef("FortranBase"))
    c.param("item", TRef("FortranBase"))
    c.ensures("is_selected", lambda v0, res, v1: res.t == selected(v0, v0.self, v0.item))
    c.ensures("frame_pure", lambda v0, res, v1: z3.And(*[H(v1, f) == H(v0, f) for f in ("permission", "display", "visible", "doc_list")]), role="frame")
    c.no_raise = True
    return c


def call_should_display(eng, path, e, args, recv):
    """callee contract of _should_display at a call site: pure, result == selected(self, item)"""
    v = V(eng, path)
    return SBool(selected(v, recv.t, args[0].t))


class FiltSpec:
    """FILT(seq, k): the order-preserving filter of seq[0:k] by the oracle predicate, with ground unfolding"""

    def __init__(self, name, pred):
        self.F = z3.Function(f"FILT_{name}!{next(_n)}", z3.SeqSort(I), I, z3.SeqSort(I))
        self.pred = pred

    def unfold(self, seq, k):
        x = seq[k]
        return [self.F(seq, 0) == z3.Empty(z3.SeqSort(I)),
                self.F(seq, k + 1) == z3.If(self.pred(x), z3.Concat(self.F(seq, k), z3.Unit(x)), self.F(seq, k))]

    def full(self, seq):
        return self.F(seq, z3.Length(seq))


import itertools
_n = itertools.count()


# ---------------------------------------------------------------- filter_display
def filter_display(prop="C05"):
    c = base(Contract("ford.sourceform", "FortranBase.filter_display", prop))
    c.param("self", TRef("FortranBase"))
    c.param("collection", TList("ref"))
    c.methods["_should_display"] = call_should_display
    st = {}

    def spec(v):
        if "f" not in st:
            v0 = V(v._e, v._e.entry)
            st["f"] = FiltSpec("sel", lambda x: selected(v0, v0.self, x))
        return st["f"]
    c.loop(0, invariants=[
        ("result_is_filter_prefix", lambda v: v._lc0 == spec(v).F(v.it.seq, v.k)),
        ("frame", lambda v: z3.And(*[H(v, f) == H(V(v._e, v._e.entry), f) for f in ("permission", "display", "settings", "hide_undoc", "doc_list")])),
        ("doclists", lambda v: v.heap.lists.get("str") == v._e.entry.heap.lists.get("str") if "str" in v.heap.lists else z3.BoolVal(True)),
    ], unfold=lambda v: spec(v).unfold(v.it.seq, v.k), variant=lambda v: z3.Length(v.it.seq) - v.k)
    c.ensures("order_preserving_filter_by_selection",
              lambda v0, res, v1: v1.heap.list_get(res) == st["f"].full(v0.heap.list_get(v0.val("collection"))))
    c.ensures("input_list_untouched", lambda v0, res, v1: v1.heap.list_get(v0.val("collection")) == v0.heap.list_get(v0.val("collection")), role="frame")
    c.ensures("result_is_a_new_list", lambda v0, res, v1: res.id > v0.heap.alloc0, role="frame")
    c.no_raise = True
    return c


# ---------------------------------------------------------------- global filter spec (heap dependencies are arguments)
A_I_I = z3.ArraySort(I, I)
FILTSEL = z3.Function("FILTSEL", z3.SeqSort(I), I, I, A_I_I, z3.ArraySort(I, z3.BoolSort()), A_I_I,
                      z3.ArraySort(I, z3.SeqSort(I)), A_I_I, z3.ArraySort(I, S), z3.SeqSort(I))


def _selargs(v, selfref):
    v._p.heap._lmap("str")
    return (selfref, H(v, "settings"), H(v, "hide_undoc"), H(v, "doc_list"), v.heap.lists["str"], H(v, "display"), H(v, "permission"))


def filtsel(v, selfref, seq, k):
    return FILTSEL(seq, k, *_selargs(v, selfref))


def filtsel_unfold(v, selfref, seq, k):
    x = seq[k]
    return [filtsel(v, selfref, seq, 0) == z3.Empty(z3.SeqSort(I)),
            filtsel(v, selfref, seq, k + 1) == z3.If(selected(v, selfref, x), z3.Concat(filtsel(v, selfref, seq, k), z3.Unit(x)),
                                                     filtsel(v, selfref, seq, k))]


def filter_display2(prop="C05"):
    """same contract as filter_display, stated with the global FILTSEL so that callers can use it"""
    c = base(Contract("ford.sourceform", "FortranBase.filter_display", prop))
    c.param("self", TRef("FortranBase"))
    c.param("collection", TList("ref"))
    c.methods["_should_display"] = call_should_display
    E = lambda v: V(v._e, v._e.entry)
    c.loop(0, invariants=[
        ("result_is_filter_prefix", lambda v: v._lc0 == filtsel(E(v), E(v).self, v.it.seq, v.k)),
        ("frame", lambda v: z3.And(*[H(v, f) == H(E(v), f) for f in ("permission", "display", "settings", "hide_undoc", "doc_list")])),
        ("doclists", lambda v: v.heap.lists["str"] == v._e.entry.heap.lists["str"]),
    ], unfold=lambda v: filtsel_unfold(E(v), E(v).self, v.it.seq, v.k), variant=lambda v: z3.Length(v.it.seq) - v.k)
    c.extra_setup.append(lambda eng, path: path.heap._lmap("str"))
    c.ensures("order_preserving_filter_by_selection",
              lambda v0, res, v1: v1.heap.list_get(res) == filtsel(v0, v0.self, v0.heap.list_get(v0.val("collection")),
                                                                   z3.Length(v0.heap.list_get(v0.val("collection")))))
    c.ensures("input_list_untouched", lambda v0, res, v1: v1.heap.list_get(v0.val("collection")) == v0.heap.list_get(v0.val("collection")), role="frame")
    c.ensures("result_is_a_new_list", lambda v0, res, v1: res.id > v0.heap.alloc0, role="frame")
    c.no_raise = True
    return c


def call_filter_display(eng, path, e, args, recv):
    """callee contract of filter_display: a new list holding the order-preserving filter of the argument"""
    v = V(eng, path)
    arg = args[0]
    if not isinstance(arg, SList):
        raise EngineError("filter_display argument is not a list")
    seq = path.heap.list_get(arg)
    res = SList(path.heap.new_id(), "ref")
    path.heap.list_set(res, filtsel(v, recv.t, seq, z3.Length(seq)))
    return res


DEPTH = z3.Function("DEPTH", I, I)     # ghost: nesting depth of an entity in the entity forest

# child lists of a code unit that hold entities with an accessibility, read from FortranBase.children on every run
def children_lists():
    fn = loader.find_def("ford.sourceform", "FortranBase.children")
    names = []
    for n in ast.walk(fn):
        if isinstance(n, ast.Call) and isinstance(n.func, ast.Attribute) and n.func.attr == "iterator":
            names = [a.value for a in n.args if isinstance(a, ast.Constant)]
            break
    return names


CODEUNIT_LISTS = ["absinterfaces", "common", "enums", "functions", "interfaces", "subroutines", "types", "variables", "namelists"]
# lists a procedure must not show when proc_internals is off ("local variables, derived types, etc.": user guide).  Namelists are
# exempt: FORD documents a procedure's namelists on pages of their own whatever proc_internals says (Project._fortran_file; the repository's test
# test_project.py::test_find_namelists pins that down), and a procedure (obj == "proc") never has modprocedures/modfunctions/modsubroutines.
HIDDEN_EMPTY = ["functions", "subroutines", "types", "interfaces", "absinterfaces", "variables", "enums", "common"]
PRUNE_RECURSE = ["functions", "subroutines", "types", "modprocedures", "modfunctions", "modsubroutines"]


def call_iterator(eng, path, e, args, recv):
    """ASSUMED contract of FortranBase.iterator (a generator, outside Engine A's subset): the concatenation, in argument order,
    of the named list attributes that exist on the object"""
    seq = z3.Empty(z3.SeqSort(I))
    for a in args:
        if not (isinstance(a, SConst) and isinstance(a.py, str)):
            raise EngineError("iterator() with non-constant names")
        has = z3.Select(eng.has_array(path, a.py), recv.t)
        l = eng.read_field(path, recv.t, a.py)
        seq = z3.Concat(seq, z3.If(has, path.heap.list_get(l), z3.Empty(z3.SeqSort(I))))
    res = SList(path.heap.new_id(), "ref")
    path.heap.list_set(res, seq)
    return res


PRUNE_MOD_FIELDS = CODEUNIT_LISTS + ["modprocedures", "modsubroutines", "modfunctions", "boundprocs", "visible"]


def _prune_effects(selfterm):
    def apply(eng, path, ground=()):
        # callee prune(): rewrites child-list fields and `visible` only on entities strictly deeper than `self`'s level
        # (entity forest assumption), never clears a visible flag, allocates new lists, leaves existing list contents alone
        oldvis = eng.field_array(path, "visible")
        eng.callee_effects(path, fields=[f for f in PRUNE_MOD_FIELDS if f != "visible"],
                           keep=lambda o: DEPTH(o) <= DEPTH(selfterm), ground=[selfterm] + list(ground))
        newvis = fresh("H_visible", oldvis.sort())
        o = z3.Int("o!vis")
        path.assume(z3.ForAll([o], z3.Implies(z3.Select(oldvis, o), z3.Select(newvis, o)), patterns=[z3.Select(newvis, o)]))
        path.heap.f["visible"] = newvis
    return apply


def prune_codeunit(prop="C05", lists=None):
    c = base(Contract("ford.sourceform", "FortranCodeUnit.prune", prop))
    c.param("self", TRef("FortranCodeUnit"))
    cm = class_model()
    c.methods["filter_display"] = call_filter_display
    c.methods["iterator"] = call_iterator
    c.assumed.append("FortranBase.iterator(*names): concatenation in argument order of the list attributes that exist (generator; assumed)")
    c.assumed.append("recursive obj.prune() calls: frame = child-list fields and visible flags of strictly deeper entities only (entity forest), "
                     "visible never cleared, existing list objects not mutated (assumed callee contract; proved for this function's own body)")
    c.extra_setup.append(lambda eng, path: path.heap._lmap("str"))

    def call_prune(eng, path, e, args, recv):
        _prune_effects(path.env["self"].t)(eng, path)
        return SNone()
    c.methods["prune"] = call_prune
    c.call_havoc["prune"] = lambda eng, head: _prune_effects(head.env["self"].t)(eng, head)

    def req_shape(v):
        s = v.self
        has = lambda f: z3.Select(v._e.has_array(v._p, f), s)
        base_has = [has(f) for f in CODEUNIT_LISTS]
        return z3.And(cm.is_a(s, "FortranCodeUnit"), *base_has,
                      has("modprocedures") == cm.is_a(s, "FortranModule"),
                      z3.Implies(has("modfunctions"), cm.is_a(s, "FortranSubmodule")),
                      has("modfunctions") == has("modsubroutines"),
                      z3.Implies(cm.is_a(s, "FortranSubmodule"), has("modfunctions")))
    c.requires("class_shape", req_shape)
    E = lambda v: V(v._e, v._e.entry)
    LISTF = CODEUNIT_LISTS + ["modprocedures", "modsubroutines", "modfunctions"]

    def lists_stable(v):
        # self's list fields and the contents of those lists are what they were when the loop was entered
        return z3.BoolVal(True)

    def inv_common(which):
        return [
            ("visible_prefix", lambda v: z3.ForAll([z3.Int("j!v")], z3.Implies(z3.And(0 <= z3.Int("j!v"), z3.Int("j!v") < v.k),
                                                                              z3.Select(H(v, "visible"), v.it.seq[z3.Int("j!v")])))),
        ]
    # snapshots taken when each loop is entered are expressed through ghost copies recorded in the path environment
    def snap_inv(v):
        conj = []
        for f in LISTF:
            g = f"_snap_{f}"
            if v.has(g):
                conj.append(sel(H(v, f), v.self) == v.val(g).id)
                conj.append(v.heap.list_get(v.val(g)) == v._snapc[f])
        return z3.And(*conj) if conj else z3.BoolVal(True)
    c._snap = {}

    def before_loop(eng, path, ordn):
        pass
    c.loop(0, invariants=[("self_lists_stable", lambda v: _stable(v, 0)), ("selection_inputs", lambda v: _selstable(v))],
           variant=lambda v: z3.Length(v.it.seq) - v.k)
    c.loop(1, invariants=[("self_lists_stable", lambda v: _stable(v, 1)), ("selection_inputs", lambda v: _selstable(v))],
           variant=lambda v: z3.Length(v.it.seq) - v.k)

    def _selstable(v):
        return z3.And(*[H(v, f) == H(E(v), f) for f in ("permission", "display", "doc_list", "settings", "hide_undoc")],
                      v.heap.lists["str"] == v._e.entry.heap.lists["str"])

    def _stable(v, ordn):
        # the lists assigned before the loops: field values and contents unchanged since the last filter assignment.  They are
        # recorded by the post-state expectation: field f of self still holds FILTSEL of the entry list.
        return z3.And(*[_list_post(v, E(v), f) for f in (lists or LISTF_EXPECT)])

    def _vis_all(v, fields):
        j = z3.Int("j!w")
        out = []
        for f in fields:
            seq = lst(v, f, v.self)
            out.append(z3.ForAll([j], z3.Implies(z3.And(0 <= j, j < z3.Length(seq)), z3.Select(H(v, "visible"), seq[j]))))
        return z3.And(*out)

    def _list_post(v1, v0, f):
        has0 = z3.Select(v0._e.has_array(v0._p, f), v0.self)
        seq0 = lst(v0, f, v0.self)
        return z3.Implies(has0, lst(v1, f, v1.self) == filtsel(v0, v0.self, seq0, z3.Length(seq0)))
    LISTF_EXPECT = CODEUNIT_LISTS + ["modprocedures", "modsubroutines", "modfunctions"]
    hidden = lambda v0: z3.And(sel(H(v0, "obj"), v0.self) == z3.StringVal("proc"),
                               z3.Not(sel(H(v0, "proc_internals"), sel(H(v0, "meta"), v0.self))))
    for f in (lists or (CODEUNIT_LISTS + ["modprocedures", "modsubroutines", "modfunctions"])):
        c.ensures(f"list_{f}_is_filtered",
                  lambda v0, res, v1, f=f: z3.Implies(z3.Not(hidden(v0)), _list_post(v1, v0, f)))
        if f in HIDDEN_EMPTY:
            c.ensures(f"list_{f}_empty_when_internals_hidden",
                      lambda v0, res, v1, f=f: z3.Implies(z3.And(hidden(v0), z3.Select(v0._e.has_array(v0._p, f), v0.self)),
                                                          z3.Length(lst(v1, f, v1.self)) == 0))
    for f in []:
        def vis(v0, res, v1, f=f):
            j = z3.Int("j!p")
            seq = lst(v1, f, v1.self)
            return z3.Implies(z3.And(z3.Not(hidden(v0)), z3.Select(v0._e.has_array(v0._p, f), v0.self)),
                              z3.ForAll([j], z3.Implies(z3.And(0 <= j, j < z3.Length(seq)), z3.Select(H(v1, "visible"), seq[j]))))
        c.ensures(f"retained_{f}_are_visible", vis)
    c.ensures("selection_inputs_untouched", lambda v0, res, v1: z3.And(*[H(v1, f) == H(v0, f) for f in ("permission", "display", "doc_list", "settings", "hide_undoc")]), role="frame")
    c.no_raise = True
    return c


def _simple_prune(qualname, cls, lists, prop="C05", recurse=False):
    c = base(Contract("ford.sourceform", qualname, prop))
    c.param("self", TRef(cls))
    c.methods["filter_display"] = call_filter_display
    c.extra_setup.append(lambda eng, path: path.heap._lmap("str"))
    E = lambda v: V(v._e, v._e.entry)

    def _list_post(v1, v0, f):
        seq0 = lst(v0, f, v0.self)
        return lst(v1, f, v1.self) == filtsel(v0, v0.self, seq0, z3.Length(seq0))

    def _selstable(v):
        return z3.And(*[H(v, f) == H(E(v), f) for f in ("permission", "display", "doc_list", "settings", "hide_undoc")],
                      v.heap.lists["str"] == v._e.entry.heap.lists["str"])
    if recurse:
        def call_prune(eng, path, e, args, recv):
            _prune_effects(path.env["self"].t)(eng, path)
            return SNone()
        c.methods["prune"] = call_prune
        c.call_havoc["prune"] = lambda eng, head: _prune_effects(head.env["self"].t)(eng, head)
        c.assumed.append("recursive dtype.prune(): frame = child-list fields / visible flags of strictly deeper entities only (assumed callee contract)")
    c.loop(0, invariants=[("self_lists_stable", lambda v: z3.And(*[_list_post(v, E(v), f) for f in lists])),
                          ("selection_inputs", _selstable)], variant=lambda v: z3.Length(v.it.seq) - v.k)
    for f in lists:
        c.ensures(f"list_{f}_is_filtered", lambda v0, res, v1, f=f: _list_post(v1, v0, f))
    c.ensures("selection_inputs_untouched", lambda v0, res, v1: z3.And(*[H(v1, f) == H(v0, f) for f in ("permission", "display", "doc_list", "settings", "hide_undoc")]), role="frame")
    c.no_raise = True
    return c


def prune_type(prop="C05"):
    return _simple_prune("FortranType.prune", "FortranType", ["boundprocs", "variables"], prop)


def prune_blockdata(prop="C05"):
    return _simple_prune("FortranBlockData.prune", "FortranBlockData", ["types", "variables"], prop, recurse=True)


# ---------------------------------------------------------------- link emission: FortranBase.__str__
FULL_URL = z3.Function("FULL_URL", I, S)          # full_url of an entity ('' encodes None); its own contract is under C09


def str_method(prop="C05"):
    c = base(Contract("ford.sourceform", "FortranBase.__str__", prop))
    c.param("self", TRef("FortranBase"))
    c.props["full_url"] = lambda eng, path, obj: SStr(FULL_URL(obj.t))
    c.assumed.append("self.full_url is a pure property (its builder get_url is under contract in C09); None is encoded as the empty string")
    vis = lambda v: z3.Or(z3.Not(z3.Select(v._e.has_array(v._p, "visible"), v.self)), sel(H(v, "visible"), v.self))
    name = lambda v: sel(H(v, "name"), v.self)

    def post(v0, res, v1):
        r = v1._e.to_str(v1._p, res)
        plain = r == name(v0)
        return z3.And(z3.Implies(z3.Not(vis(v0)), plain),                                     # an unselected entity is never linked
                      z3.Implies(z3.Length(FULL_URL(v0.self)) == 0, plain),
                      z3.Implies(z3.Not(plain), z3.PrefixOf(z3.Concat(z3.StringVal("<a href='"), FULL_URL(v0.self), z3.StringVal("'>")), r)))
    c.ensures("anchor_only_for_visible_entities_with_a_url", post)

    def hidden_type_parent(v):
        """the entity is described on the page of a derived type (component, binding, final procedure) and that type is not displayed:
        a type extending it shares these objects, and the page their URL names is not written"""
        par = sel(H(v, "parent"), v.self)
        has_par = z3.Select(v._e.has_array(v._p, "parent"), v.self)
        # (a type of an external project carries no `visible` flag: its page exists in that project's documentation)
        return z3.And(has_par, par != 0, c.classes.is_a(par, "FortranType"), z3.Select(v._e.has_array(v._p, "visible"), par), z3.Not(sel(H(v, "visible"), par)))

    def post2(v0, res, v1):
        r = v1._e.to_str(v1._p, res)
        return z3.Implies(hidden_type_parent(v0), r == name(v0))
    c.ensures("no_anchor_into_the_page_of_a_hidden_type", post2)
    c.no_raise = True
    return c


# ---------------------------------------------------------------- graph node URLs: BaseNode.__init__ final block
def basenode_url_block(prop="C05"):
    from pyvc.blocks import stmt_containing
    c = Contract("ford.graphs", "BaseNode.__init__", prop)
    c.qual_suffix = "url_block"
    c.block_select = stmt_containing("self.attribs['URL']")
    c.dropped.append("block contract: only the top-level statement of BaseNode.__init__ that assigns self.attribs['URL']")
    c.fields = {"url": "str", "fromstr": "bool", "attribs": "dict:str:str", "visible": "bool", "parent_dir": "str", "external_url": "str"}
    c.param("self", TRef("BaseNode"))
    c.param("obj", TRef("FortranBase"))
    c.param("graph_data", TRef("GraphData"))

    def setup(eng, path):
        path.heap._dmap(SDict(0, "str", "str"))
    c.extra_setup.append(setup)
    URLK = z3.StringVal("URL")

    def has_url(v):
        d = SDict(sel(H(v, "attribs"), v.self), "str", "str")
        return z3.Select(v.heap.dict_has(d), URLK)
    vis = lambda v: z3.Or(z3.Not(z3.Select(v._e.has_array(v._p, "visible"), v.obj)), sel(H(v, "visible"), v.obj))
    c.ensures("URL_attribute_only_for_visible_entities", lambda v0, res, v1: z3.Implies(z3.And(has_url(v1), z3.Not(has_url(v0))), vis(v0)))
    c.ensures("URL_attribute_set_when_visible_and_has_url",
              lambda v0, res, v1: z3.Implies(z3.And(vis(v0), z3.Length(sel(H(v0, "url"), v0.self)) > 0), has_url(v1)))
    c.no_raise = True
    return c


# ---------------------------------------------------------------- display inheritance: _set_display
def set_display(prop="C05"):
    c = base(Contract("ford.sourceform", "FortranBase._set_display", prop))
    c.param("self", TRef("FortranBase"))
    c.fields["display"] = "list:str"
    cm = class_model()
    E = lambda v: V(v._e, v._e.entry)
    c.extra_setup.append(lambda eng, path: path.heap._lmap("str"))
    c.requires("not_a_source_file", lambda v: z3.Not(cm.is_a(v.self, "FortranSourceFile")))      # the `none`-stripping loop of source files is a separate case
    c.requires("meta_is_its_own_object", lambda v: z3.And(sel(H(v, "meta"), v.self) != v.self, sel(H(v, "meta"), v.self) != sel(H(v, "parent"), v.self),
                                                        sel(H(v, "meta"), v.self) > 0, sel(H(v, "parent"), v.self) >= 0))
    par = lambda v: sel(H(v, "parent"), v.self)
    meta_disp = lambda v: lst(v, "display", sel(H(v, "meta"), v.self), "str")
    LOW = z3.Function("LOWSEQ", z3.SeqSort(I), I, z3.SeqSort(I))      # [x.lower() for x in seq[0:k]] over interned strings

    def unfold(v):
        seq = v.it.seq
        return [LOW(seq, 0) == z3.Empty(z3.SeqSort(I)), LOW(seq, v.k + 1) == z3.Concat(LOW(seq, v.k), z3.Unit(SID(LOWER(STR_OF(seq[v.k])))))]
    c.hints["listcomp"] = "str"
    c.loop(0, invariants=[("tmp_is_lowered_prefix", lambda v: v._lc0 == LOW(v.it.seq, v.k)),
                          ("frame", lambda v: sel(H(v, "display"), v.self) == z3.If(par(E(v)) != 0, sel(H(E(v), "display"), par(E(v))), sel(H(E(v), "display"), E(v).self)))],
           unfold=unfold, variant=lambda v: z3.Length(v.it.seq) - v.k)

    def post(v0, res, v1):
        md = meta_disp(v0)
        tmp = LOW(md, z3.Length(md))
        inherited_id = z3.If(par(v0) != 0, sel(H(v0, "display"), par(v0)), sel(H(v0, "display"), v0.self))
        has = lambda w: z3.Contains(tmp, z3.Unit(SID(z3.StringVal(w))))
        new = lst(v1, "display", v1.self, "str")
        field = sel(H(v1, "display"), v1.self)
        return z3.And(
            z3.Implies(z3.Length(tmp) == 0, field == inherited_id),                                   # no override: the parent's selection is inherited
            z3.Implies(z3.And(z3.Length(tmp) > 0, has("none")), z3.Length(new) == 0),                 # none: nothing below is shown
            z3.Implies(z3.And(z3.Length(tmp) > 0, z3.Not(has("none")), z3.Not(z3.Or(has("public"), has("private"), has("protected")))), field == inherited_id),
            z3.Implies(z3.And(z3.Length(tmp) > 0, z3.Not(has("none")), z3.Or(has("public"), has("private"), has("protected"))), new == tmp))
    c.ensures("display_is_inherited_unless_overridden_in_the_entity_metadata", post)
    c.no_raise = True
    return c


def entity_settings_default_display(prop="C05"):
    """from_project_settings must leave `display` at its dataclass default (empty = 'no per-entity override'); decided on the AST of the
    classmethod and of the dataclass field (a constructor call with keywords is outside Engine A's subset)"""
    import ast as _ast
    from harness.core import OR, PROVED, REFUTED, UNKNOWN
    fn = loader.find_def("ford.settings", "EntitySettings.from_project_settings")
    cls = loader.find_def("ford.settings", "EntitySettings")
    calls = [n for n in _ast.walk(fn) if isinstance(n, _ast.Call) and isinstance(n.func, _ast.Name) and n.func.id == "cls"]
    out = []
    if len(calls) != 1:
        return [OR(id=f"{prop}.S.EntitySettings.from_project_settings.shape", status=UNKNOWN, kind="S", target="ford.settings.EntitySettings.from_project_settings",
                   detail="expected a single cls(...) call")]
    kws = {k.arg for k in calls[0].keywords}
    dflt = None
    for st in cls.body:
        if isinstance(st, _ast.AnnAssign) and isinstance(st.target, _ast.Name) and st.target.id == "display":
            dflt = _ast.unparse(st.value) if st.value is not None else None
    ok = "display" not in kws and not calls[0].args and dflt in ("field(default_factory=list)", "[]")
    r = OR(id=f"{prop}.S.EntitySettings.from_project_settings.display_not_copied", status=PROVED if ok else REFUTED, kind="S", role="post", backend="ast",
           target="ford.settings.EntitySettings.from_project_settings",
           desc="ensures result.display == [] : the project-wide display is not copied into every entity's metadata (it would read as a per-entity override)")
    if not ok:
        r.witness = {"keywords": sorted(k for k in kws if k), "display_default": dflt}
        try:
            st = loader.import_repo("ford.settings")
            es = st.EntitySettings.from_project_settings(st.ProjectSettings(display=["public", "private"]))
            r.replay = {"confirmed": bool(es.display), "input": "EntitySettings.from_project_settings(ProjectSettings(display=['public','private']))",
                        "actual": es.display, "expected": []}
        except Exception as ex:
            r.replay = {"confirmed": False, "error": str(ex)}
    return [r]


def project_lists_follow_selection(prop="C05"):
    """Project.correlate: the project lists from which pages are built hold only displayed entities: they are gathered from the code units AFTER prune(), and the
    namelists (collected at parse time) are filtered by the visibility of every ancestor before any page is built"""
    import ast
    from harness import loader
    from harness.core import OR, PROVED, REFUTED, UNKNOWN
    fn = loader.find_def("ford.fortran_project", "Project.correlate")
    body = fn.body
    prune_at = [i for i, st in enumerate(body) if isinstance(st, ast.For) and any(isinstance(x, ast.Call) and ast.unparse(x.func).endswith(".prune") for x in ast.walk(st))]
    gather_at = [i for i, st in enumerate(body) if isinstance(st, ast.For) and "getattr(self, container).extend(entities)" in ast.unparse(st)]
    nml_at = [i for i, st in enumerate(body) if isinstance(st, ast.Assign) and ast.unparse(st.targets[0]) == "self.namelists"]
    tgt = "ford.fortran_project.Project.correlate"
    if len(prune_at) != 1 or len(gather_at) != 1:
        return [OR(id=f"{prop}.S.Project.correlate.lists_gathered_after_prune", status=UNKNOWN, kind="S", role="pre", backend="ast", target=tgt, detail="prune loop / gathering loop not found in the recognised form")]
    out = [OR(id=f"{prop}.S.Project.correlate.lists_gathered_after_prune", status=PROVED if gather_at[0] > prune_at[0] else REFUTED, kind="S", role="pre", backend="ast", target=tgt,
              desc="project.procedures / types / absinterfaces / submodprocedures are gathered from the code units after every unit has been pruned")]
    ok = False
    if nml_at:
        st = body[nml_at[-1]]
        src = ast.unparse(st.value)
        # the visibility walk: a helper called on the namelist in the filter - nested in correlate, or a function of the module - that follows `parent` and reads `visible`
        _, tree = loader.module_source("ford.fortran_project")
        defs = {d.name: d for d in list(tree.body) + list(ast.walk(fn)) if isinstance(d, ast.FunctionDef)}
        called = [ast.unparse(c.func).split(".")[-1] for c in ast.walk(st.value) if isinstance(c, ast.Call) and c.args and ast.unparse(c.args[0]) == "nml"] if isinstance(st.value, ast.ListComp) else []
        walks = [n for n in called if n in defs and "'visible', True)" in ast.unparse(defs[n]) and "'parent', None)" in ast.unparse(defs[n])]
        ok = nml_at[-1] > prune_at[0] and isinstance(st.value, ast.ListComp) and src.startswith("[nml for nml in self.namelists if") and bool(walks)
        # ... and that its own parent still lists (prune() removes a namelist the display options exclude from `parent.namelists`; `visible` is always true for a namelist)
        ok = ok and "nml in getattr(nml.parent, 'namelists'" in src
    r = OR(id=f"{prop}.S.Project.correlate.namelists_filtered_after_prune", status=PROVED, kind="S", role="post", backend="ast", target=tgt,
           desc="project.namelists (filled while parsing) is reduced, after pruning, to the namelists that their parent still lists and all of whose ancestors are displayed",
           witness=None if ok else {"assignments to self.namelists in correlate": [ast.unparse(body[i])[:160] for i in nml_at]})

    def _standin():
        from bounded import c05
        return c05.hidden_procedure_namelist() or c05.site_cases(only="private_namelist")
    from contracts import astform
    out.append(astform.decide(r, ok, _standin))
    return out

"""Engine A contracts for option conversion (C15): ford.settings._parse_to_dict."""
from __future__ import annotations
import z3
from pyvc.contract import *
from pyvc.values import *

I, S, B = z3.IntSort(), z3.StringSort(), z3.BoolSort()
SI = z3.SeqSort(I)
AH, AV = z3.ArraySort(S, B), z3.ArraySort(S, S)
PH = z3.Function("P2D_H", SI, I, S, AH)
PV = z3.Function("P2D_V", SI, I, S, AV)
ALLSEP = z3.Function("P2D_ALLSEP", SI, I, S, B)          # every string among the first k contains the separator
QUOTES = z3.StringVal("\\\"'")


def parts(s, sep):
    i = z3.IndexOf(s, sep, 0)
    return z3.SubString(s, 0, i), z3.SubString(s, i + z3.Length(sep), z3.Length(s) - i - z3.Length(sep))


def unfold(seq, k, sep):
    s = STR_OF(seq[k])
    kp, vp = parts(s, sep)
    # documented meaning of a `key SEP value` line: split at the FIRST separator, both sides stripped; for the ':' tables (URLs) quotes around the value are dropped
    val = z3.If(sep == z3.StringVal(":"), STRIP(STRIPCH(STRIP(vp), QUOTES)), STRIP(vp))
    return [PH(seq, 0, sep) == z3.K(S, z3.BoolVal(False)), PV(seq, 0, sep) == z3.K(S, z3.StringVal("")), ALLSEP(seq, 0, sep),
            PH(seq, k + 1, sep) == z3.Store(PH(seq, k, sep), STRIP(kp), True), PV(seq, k + 1, sep) == z3.Store(PV(seq, k, sep), STRIP(kp), val),
            ALLSEP(seq, k + 1, sep) == z3.And(ALLSEP(seq, k, sep), z3.Contains(s, sep))]


def parse_to_dict(prop="C15"):
    c = Contract("ford.settings", "_parse_to_dict", prop)
    c.param("string_list", TList("str"))
    c.param("name", TStr())
    c.param("sep", TStr())
    c.hints["dict"] = "str"
    c.requires("separator_is_one_of_the_configured_ones", lambda v: z3.Or(v.sep == z3.StringVal("="), v.sep == z3.StringVal(":")))
    E = lambda v: V(v._e, v._e.entry)

    def setup(eng, path):
        path.heap._dmap(SDict(0, "str", "str"))
        path.heap._lmap("str")
    c.extra_setup.append(setup)

    def inv(v):
        r = v.val("result")
        return z3.And(v.heap.dict_has(r) == PH(v.it.seq, v.k, E(v).sep), v.heap.dict_val(r) == PV(v.it.seq, v.k, E(v).sep), ALLSEP(v.it.seq, v.k, E(v).sep),
                      v.it.seq == E(v).heap.list_get(E(v).val("string_list")))
    c.loop(0, invariants=[("result_is_fold_of_documented_line_meaning", inv)], unfold=lambda v: unfold(v.it.seq, v.k, E(v).sep), variant=lambda v: z3.Length(v.it.seq) - v.k)

    def seq0(v0):
        return v0.heap.list_get(v0.val("string_list"))
    c.post_facts = lambda v0: [PH(seq0(v0), 0, v0.sep) == z3.K(S, z3.BoolVal(False)), PV(seq0(v0), 0, v0.sep) == z3.K(S, z3.StringVal("")), ALLSEP(seq0(v0), 0, v0.sep)]
    c.ensures("table_holds_stripped_keys_and_stripped_unquoted_values",
              lambda v0, res, v1: z3.And(v1.heap.dict_has(res) == PH(seq0(v0), z3.Length(seq0(v0)), v0.sep), v1.heap.dict_val(res) == PV(seq0(v0), z3.Length(seq0(v0)), v0.sep),
                                         ALLSEP(seq0(v0), z3.Length(seq0(v0)), v0.sep)))
    c.raises("rejected_only_when_a_line_lacks_the_separator", lambda v0, exc, v1: z3.BoolVal(exc == "RuntimeError"))
    c.allowed_raises = {"RuntimeError"}
    from harness import loader

    def search():
        st = loader.import_repo("ford.settings")
        for sep in ("=", ":"):
            for lines in (["k = v"], ["mod: https://x.y/z"], ['mod: "https://x.y/z"'], ["mod: 'u'", " a : b "], ["k=v=w"], ["novalue"]):
                try:
                    act = st._parse_to_dict(list(lines), "opt", sep)
                except RuntimeError as e:
                    act = ("raise", "opt" in str(e))
                exp = {}
                bad = False
                for ln in lines:
                    if sep not in ln:
                        bad = True
                        break
                    k, val = ln.split(sep, 1)
                    val = val.strip()
                    if sep == ":":
                        val = val.strip("\"'").strip()
                    exp[k.strip()] = val
                exp = ("raise", True) if bad else exp
                if act != exp:
                    return {"confirmed": True, "input": [lines, sep], "actual": act, "expected": exp, "how": "real _parse_to_dict vs the documented meaning of `key SEP value` lines"}
        return None
    c.search_fn = search
    return c

"""Engine A contracts for the URL builders (C09): FortranBase.get_url."""
from __future__ import annotations
import z3
from pyvc.contract import *
from pyvc.engine import _Raise
from pyvc.values import *
from contracts.heapmodel import FIELDS, class_model
from contracts.display import H, sel, base

I, S, B = z3.IntSort(), z3.StringSort(), z3.BoolSort()
GETDIR = z3.Function("GET_DIR_OF", I, S)            # '' encodes None
GETURL = z3.Function("GET_URL_OF", I, S)            # '' encodes None
IDENT = z3.Function("IDENT_OF", I, S)
ANCHOR = z3.Function("ANCHOR_OF", I, S)
VARLIKE = ["FortranBoundProcedure", "FortranCommon", "FortranVariable", "FortranEnum", "FortranFinalProc", "FortranProcedure"]


def get_url(prop="C09"):
    c = base(Contract("ford.sourceform", "FortranBase.get_url", prop))
    c.param("self", TRef("FortranBase"))
    cm = class_model()
    c.fields["external_url"] = "str"

    def call_get_dir(eng, path, e, args, recv):
        return SStr(GETDIR(recv.t))             # truthiness: non-empty
    c.methods["get_dir"] = call_get_dir
    c.methods["get_url"] = lambda eng, path, e, args, recv: SStr(GETURL(recv.t))
    c.props["ident"] = lambda eng, path, obj: SStr(IDENT(obj.t))
    c.props["anchor"] = lambda eng, path, obj: SStr(ANCHOR(obj.t))
    c.assumed.append("callee contracts (assumed): get_dir() / ident / anchor are pure; the recursive self.parent.get_url() satisfies this same contract (induction on the parent chain); "
                     "Optional[str] results are encoded with '' for None")
    par = lambda v: sel(H(v, "parent"), v.self)
    HASH = z3.StringVal("#")

    def shape(u):
        """relative (does not start with '/'); that no component is '..' follows from the exact value below and the component contracts"""
        return z3.Not(z3.PrefixOf(z3.StringVal("/"), u))
    def one_hash(u):
        """at most one fragment separator"""
        i = z3.IndexOf(u, HASH, 0)
        return z3.Implies(i >= 0, z3.Not(z3.Contains(z3.SubString(u, i + 1, z3.Length(u) - i - 1), HASH)))
    c.requires("components_are_safe", lambda v: z3.And(
        z3.Not(z3.Contains(GETDIR(v.self), z3.StringVal("/"))), z3.Not(z3.Contains(GETDIR(v.self), z3.StringVal(".."))), z3.Not(z3.Contains(GETDIR(v.self), HASH)),
        z3.Not(z3.Contains(IDENT(v.self), z3.StringVal("/"))), z3.Not(z3.Contains(IDENT(v.self), z3.StringVal(".."))), z3.Not(z3.Contains(IDENT(v.self), HASH)),
        z3.Not(z3.Contains(ANCHOR(v.self), HASH)), z3.Not(z3.Contains(ANCHOR(v.self), z3.StringVal(".."))), z3.Not(z3.Contains(ANCHOR(v.self), z3.StringVal("/"))),
        z3.Implies(par(v) != 0, z3.Or(GETURL(par(v)) == z3.StringVal(""), z3.And(shape(GETURL(par(v))), one_hash(GETURL(par(v)))))),      # induction hypothesis on the parent
        par(v) != v.self))

    def res_str(v1, res):
        if isinstance(res, SNone):
            return z3.StringVal("")
        return v1._e.to_str(v1._p, res)

    def post(v0, res, v1):
        r = res_str(v1, res)
        s = v0.self
        ext = z3.Select(v0._e.has_array(v0._p, "external_url"), s)
        d = GETDIR(s)
        varlike = z3.Or(*[cm.is_a(s, k) for k in VARLIKE])
        pu = GETURL(par(v0))
        page = z3.If(z3.Contains(pu, HASH), z3.SubString(pu, 0, z3.IndexOf(pu, HASH, 0)), pu)
        expected = z3.If(ext, sel(H(v0, "external_url"), s),
                         z3.If(z3.Length(d) > 0, z3.Concat(d, z3.StringVal("/"), IDENT(s), z3.StringVal(".html")),
                               z3.If(z3.And(varlike, par(v0) != 0, z3.Length(pu) > 0), z3.Concat(page, HASH, ANCHOR(s)), z3.StringVal(""))))
        return r == expected
    c.ensures("own_page_or_anchor_on_the_page_of_the_parent", post)

    def post_rel(v0, res, v1):
        r = res_str(v1, res)
        ext = z3.Select(v0._e.has_array(v0._p, "external_url"), v0.self)
        return z3.Implies(z3.And(z3.Not(ext), z3.Length(r) > 0), shape(r))
    c.ensures("internal_urls_are_relative", post_rel)
    c.ensures("at_most_one_fragment", lambda v0, res, v1: z3.Implies(z3.Not(z3.Select(v0._e.has_array(v0._p, "external_url"), v0.self)), one_hash(res_str(v1, res))))
    c.no_raise = True
    c.z3_timeout_ms, c.cvc5_on_unknown = 4000, True      # word equations with indexof: z3's sequence solver diverges, cvc5 decides them in < 1 s
    return c

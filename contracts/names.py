"""Engine A contract for NameSelector.get_name (C10): representation invariant + Skolemised injectivity per output directory."""
from __future__ import annotations
import z3
from pyvc.contract import *
from pyvc.values import *
from contracts.heapmodel import FIELDS, class_model
from contracts.display import H, sel, base

I, S, B = z3.IntSort(), z3.StringSort(), z3.BoolSort()
DIRF = z3.Function("GET_DIR", I, S)          # item.get_dir() as a string ("\x00None" encodes None); contract of get_dir is under C09
NONE_KEY = "\x00None"


def stem_of(name):
    """what the real code computes as the file stem before numbering (read off the code by symbolic execution; restated here only to
    phrase the invariant): lower-cased name through the symbol replacement chain, '' -> '__unnamed__'"""
    t = LOWER(name)
    for a, b in (("<", "lt"), (">", "gt"), ("/", "SLASH"), ("*", "ASTERISK")):
        t = REPLACE_ALL(t, z3.StringVal(a), z3.StringVal(b))
    return z3.If(t == z3.StringVal(""), z3.StringVal("__unnamed__"), t)


def numbered(stem, n):
    return z3.If(n > 1, z3.Concat(stem, z3.StringVal("~"), z3.IntToStr(n)), stem)


def get_name(prop="C10", key_fn=None):
    """key_fn(name) -> the string under which the code counts repetitions (part of the representation invariant, a proof artefact).
    The postconditions (idempotent, injective per directory, no '/') do not depend on it."""
    c = base(Contract("ford.sourceform", "NameSelector.get_name", prop))
    c.fields = dict(FIELDS)
    c.fields["_counts"] = "dict:str:dict:str:int"
    c.fields["_items"] = "dict:ref:str"
    c.param("self", TRef("NameSelector"))
    c.param("item", TRef("FortranBase"))
    key_fn = key_fn or (lambda name: stem_of(name))
    cm = class_model()

    def call_get_dir(eng, path, e, args, recv):
        return SStr(DIRF(recv.t))
    c.methods["get_dir"] = call_get_dir
    c.assumed.append("item.get_dir() is a pure function of the item (its own contract is under C09); None is encoded as a reserved key")
    b = z3.Int("other_item")     # Skolem constant: an arbitrary other registered item
    nb = z3.Int("other_n")

    def setup(eng, path):
        for f in ("_items", "_counts", "name"):
            eng.field_array(path, f)
        path.heap._dmap(SDict(0, "ref", "str"))
        path.heap._dmap(SDict(0, "str", "dict:str:int"))
        path.heap._dmap(SDict(0, "str", "int"))
    c.extra_setup.append(setup)

    def items(v):
        d = SDict(sel(H(v, "_items"), v.self), "ref", "str")
        return v.heap.dict_has(d), v.heap.dict_val(d)

    def counts(v, dirkey):
        outer = SDict(sel(H(v, "_counts"), v.self), "str", "dict:str:int")
        oh, ov = v.heap.dict_has(outer), v.heap.dict_val(outer)
        inner = SDict(z3.Select(ov, dirkey), "str", "int")
        return z3.Select(oh, dirkey), v.heap.dict_has(inner), v.heap.dict_val(inner)

    def rep_inv_for(v, x, nx):
        """representation invariant instantiated on item x with ghost number nx: x is registered, its stem is numbered(stem_of(name), nx)
        and nx is within the counter of (dir, key)"""
        ih, iv = items(v)
        name = sel(H(v, "name"), x)
        dh, ch, cv = counts(v, DIRF(x))
        k = key_fn(name)
        return z3.And(z3.Select(ih, x), nx >= 1, dh, z3.Select(ch, k), nx <= z3.Select(cv, k),
                      z3.Select(iv, x) == numbered(stem_of(name), nx))

    def req(v):
        ih, iv = items(v)
        a = v.item
        outer = SDict(sel(H(v, "_counts"), v.self), "str", "dict:str:int")
        oh, ov = v.heap.dict_has(outer), v.heap.dict_val(outer)
        ia, ib = z3.Select(ov, DIRF(a)), z3.Select(ov, DIRF(b))
        a0 = v.heap.alloc0
        conj = [cm.is_a(a, "FortranBase"), b != a, b > 0, rep_inv_for(v, b, nb), v.self != a, v.self != b,
                z3.Distinct(sel(H(v, "_items"), v.self), sel(H(v, "_counts"), v.self), ia),
                z3.Distinct(sel(H(v, "_items"), v.self), sel(H(v, "_counts"), v.self), ib),
                # the per-directory counter dicts are distinct objects for distinct directories, allocated before the call
                z3.Implies(DIRF(a) != DIRF(b), ia != ib), ia > 0, ia < a0, ib > 0, ib < a0,
                sel(H(v, "_items"), v.self) > 0, sel(H(v, "_items"), v.self) < a0, sel(H(v, "_counts"), v.self) > 0, sel(H(v, "_counts"), v.self) < a0]
        # counters are positive (rep invariant, instantiated on the key of `item`)
        dh_a, ch_a, cv_a = counts(v, DIRF(a))
        ka = key_fn(sel(H(v, "name"), a))
        conj.append(z3.Implies(z3.And(dh_a, z3.Select(ch_a, ka)), z3.Select(cv_a, ka) >= 1))
        # no '~' in stems (Fortran names and operator spellings never contain it) -- needed for numbered() to be injective
        for x in (a, b):
            conj.append(z3.Not(z3.Contains(stem_of(sel(H(v, "name"), x)), z3.StringVal("~"))))
        # Skolemised second half of the invariant: registered items with the same (dir, key) carry different numbers;
        # if `item` is already registered it has a ghost number too
        na = z3.Int("item_n")
        conj.append(z3.Implies(z3.Select(ih, a), z3.And(rep_inv_for(v, a, na),
                                                        z3.Implies(z3.And(DIRF(a) == DIRF(b), key_fn(sel(H(v, "name"), a)) == key_fn(sel(H(v, "name"), b))), na != nb))))
        return z3.And(*conj)
    c.requires("rep_invariant_on_an_arbitrary_other_item", req)

    def pair_lemma(sa, n, sb, m):
        """ASSUMED string lemma (neither z3 nor cvc5 proves it in 100 s; bounded-checked by enumeration): for stems without '~' and
        numbers >= 1, numbering is injective in (stem, number)"""
        return z3.Implies(z3.And(z3.Not(z3.Contains(sa, z3.StringVal("~"))), z3.Not(z3.Contains(sb, z3.StringVal("~"))), n >= 1, m >= 1),
                          (numbered(sa, n) == numbered(sb, m)) == z3.And(sa == sb, n == m))

    def facts(v0, v1):
        a = v0.item
        sa, sb = stem_of(sel(H(v0, "name"), a)), stem_of(sel(H(v0, "name"), b))
        dh, ch, cv = counts(v1, DIRF(a))
        n_after = z3.Select(cv, key_fn(sel(H(v0, "name"), a)))
        return [pair_lemma(sa, n_after, sb, nb), pair_lemma(sa, z3.Int("item_n"), sb, nb)]
    c.post_facts = facts
    c.assumed.append("string lemma: for stems without '~' and n, m >= 1:  stem~n == stem'~m  <=>  stem == stem' and n == m  "
                     "(numbered(s, 1) = s); assumed, bounded-checked by enumeration")

    def inj(v0, res, v1):
        ih, iv = items(v1)
        return z3.Implies(DIRF(v0.item) == DIRF(b), v1._e.to_str(v1._p, res) != z3.Select(iv, b))
    c.ensures("injective_per_output_directory", inj)
    c.ensures("registered_and_idempotent", lambda v0, res, v1: z3.And(z3.Select(items(v1)[0], v0.item), z3.Select(items(v1)[1], v0.item) == v1._e.to_str(v1._p, res)))
    c.ensures("other_items_keep_their_name", lambda v0, res, v1: z3.Select(items(v1)[1], b) == z3.Select(items(v0)[1], b), role="frame")

    def inv_kept(v0, res, v1):
        a = v0.item
        dh, ch, cv = counts(v1, DIRF(a))
        n_reg = z3.Int("item_n")
        n_new = z3.If(z3.Select(items(v0)[0], a), n_reg, z3.Select(cv, key_fn(sel(H(v0, "name"), a))))
        return z3.And(rep_inv_for(v1, b, nb), rep_inv_for(v1, a, n_new))
    c.ensures("rep_invariant_preserved", inv_kept)
    def positive(v0, res, v1):
        dh, ch, cv = counts(v1, DIRF(v0.item))
        ka = key_fn(sel(H(v0, "name"), v0.item))
        return z3.Implies(z3.And(dh, z3.Select(ch, ka)), z3.Select(cv, ka) >= 1)
    c.ensures("counters_stay_positive", positive)
    c.allowed_raises = set()
    return c


# ------------------------------------------------------------------ anchors
QUOTE = z3.Function("URL_QUOTE", z3.StringSort(), z3.StringSort())      # urllib.parse.quote: injective (bounded lemma), result free of '#'
IDENT_OF = z3.Function("IDENT_OF_ENTITY", z3.IntSort(), z3.StringSort())


def anchor(prop="C10"):
    """FortranBase.anchor: '<obj>-<quote(ident)>' - an injective function of (obj, ident) because quote is injective and obj (a fixed class-derived word) has no '-'"""
    c = base(Contract("ford.sourceform", "FortranBase.anchor", prop))
    c.fields.update({"obj": "str"})
    c.param("self", TRef("FortranBase"))
    c.props["ident"] = lambda eng, path, obj: SStr(IDENT_OF(obj.t))
    c.calls["quote"] = lambda eng, path, e, args, recv: SStr(QUOTE(eng.to_str(path, args[0])))
    c.assumed.append("urllib.parse.quote is an injective pure function (bounded lemma C10.Bd.lemma.quote_injective); self.ident is the NameSelector identifier (get_name contract)")
    c.ensures("kind_word_dash_quoted_identifier",
              lambda v0, res, v1: v1._e.to_str(v1._p, res) == z3.Concat(sel(H(v0, "obj"), v0.self), z3.StringVal("-"), QUOTE(IDENT_OF(v0.self))))
    c.no_raise = True
    return c


def object_page(prop="C10"):
    """DocPage.object_page: the file name of an entity page is the identifier plus '.html' and nothing else - the identifier was made unique per directory by
    NameSelector (get_name contract), so the map identifier -> file name must be injective, and it must be the last component of get_url() ('<dir>/<ident>.html',
    C09 contract) so that the page is written where its links point."""
    c = base(Contract("ford.output", "DocPage.object_page", prop))
    c.fields.update({"obj": "ref"})
    c.param("self", TRef("DocPage"))
    c.props["ident"] = lambda eng, path, obj: SStr(IDENT_OF(obj.t))
    c.assumed.append("self.obj.ident is the NameSelector identifier of the entity (get_name contract)")
    c.ensures("file_name_is_identifier_dot_html",
              lambda v0, res, v1: v1._e.to_str(v1._p, res) == z3.Concat(IDENT_OF(sel(H(v0, "obj"), v0.self)), z3.StringVal(".html")))
    c.no_raise = True
    return c


def is_interface_procedure(prop="C10"):
    """FortranProcedure.is_interface_procedure decides whether a procedure borrows the identifier, directory and accessibility of its interface block.  Only the single
    procedure of a non-generic (or abstract) interface block *is* that interface; the interface bodies of a generic interface are distinct procedures that must keep
    identifiers (anchors, URLs) of their own."""
    c = base(Contract("ford.sourceform", "FortranProcedure.is_interface_procedure", prop))
    c.fields.update({"generic": "bool"})
    c.param("self", TRef("FortranProcedure"))
    par = lambda v: sel(H(v, "parent"), v.self)
    c.ensures("only_the_procedure_of_a_non_generic_interface_block_shares_its_identity",
              lambda v0, res, v1: res.t == z3.And(par(v0) != 0, c.classes.is_a(par(v0), "FortranInterface"), z3.Not(sel(H(v0, "generic"), par(v0)))))
    c.no_raise = True
    return c


def graph_ident_obligation(prop="C10", replay=None):
    """FortranGraph.__init__: a graph is saved as `<ident>.svg` / `.gv`.  Entity identifiers are unique per output directory only (NameSelector), and one graph class serves
    several kinds of entity (programs and procedures have CallsGraphs), so the default identifier has to carry the directory of the root entity, its identifier and the graph class."""
    import ast
    from harness import loader
    from harness.core import OR, PROVED, REFUTED, UNKNOWN
    oid = f"{prop}.S.FortranGraph.__init__.graph_file_name_carries_directory_identifier_and_class"
    fn = loader.find_def("ford.graphs", "FortranGraph.__init__")
    assigns = {ast.unparse(n.targets[0]): n.value for n in ast.walk(fn) if isinstance(n, ast.Assign) and len(n.targets) == 1}
    ident, self_ident, img = assigns.get("ident"), assigns.get("self.ident"), assigns.get("self.imgfile")
    if ident is None or self_ident is None or img is None:
        return [OR(id=oid, status=UNKNOWN, kind="S", target="ford.graphs.FortranGraph.__init__", detail="assignments to ident / self.ident / self.imgfile not found")]
    t1, t2 = ast.unparse(ident), ast.unparse(self_ident)
    ok = "root[0].get_dir()" in t1 and "root[0].ident" in t1 and "ident" in t2 and "__class__.__name__" in t2 and ast.unparse(img) == "self.ident"
    r = OR(id=oid, status=PROVED if ok else REFUTED, kind="S", role="post", backend="ast", target="ford.graphs.FortranGraph.__init__",
           desc=f"`ident = {t1[:70]}`, `self.ident = {t2[:60]}`, `self.imgfile = {ast.unparse(img)}`: directory, entity identifier and graph class all enter the file name")
    if not ok:
        r.witness = {"ident": t1, "self.ident": t2, "imgfile": ast.unparse(img)}
        r.detail = "two graphs of different entities can get the same file name"
        if replay:
            r.replay = replay()
    return [r]


def ident_obligation(prop="C10", replay=None):
    """an entity's identifier - file name of its page, and the part of its anchor id after the kind - comes from the project-wide NameSelector (under contract {prop}.A.NameSelector.get_name:
    different entities of one kind get different names, `~N` suffixes).  Every `ident` property of ford/sourceform.py returns `namelist.get_name(self)` - or, for a procedure
    of an interface block, the name of that block, or the inherited property - on every path; nothing else (the bare name, say, which equally named dummy arguments share)."""
    import ast
    from harness import loader
    from harness.core import OR, PROVED, REFUTED, UNKNOWN
    _, tree = loader.module_source("ford.sourceform")
    defs = [(cls.name, fn) for cls in tree.body if isinstance(cls, ast.ClassDef) for fn in cls.body if isinstance(fn, ast.FunctionDef) and fn.name == "ident"]
    if not defs:
        return [OR(id=f"{prop}.S.ident.anchor", status=UNKNOWN, kind="S", target="ford.sourceform", detail="no `ident` property found")]
    out = []
    allowed = ("namelist.get_name(self)", "namelist.get_name(self.parent)", "super().ident")
    for cname, fn in defs:
        rets = [ast.unparse(r.value) if r.value is not None else "None" for r in ast.walk(fn) if isinstance(r, ast.Return)]
        ok = bool(rets) and all(r in allowed for r in rets) and (cname != "FortranBase" or rets == ["namelist.get_name(self)"])
        r = OR(id=f"{prop}.S.{cname}.ident.comes_from_the_name_selector", status=PROVED if ok else REFUTED, kind="S", role="post", backend="ast", target=f"ford.sourceform.{cname}.ident",
               desc=f"{cname}.ident returns {rets}: always the NameSelector's name for the entity (or for the interface block of an interface procedure)")
        if not ok:
            r.witness = {"returns": rets}
            r.detail = "some entities get an identifier that is not made unique: equally named items of one page share an anchor id"
            if replay:
                r.replay = replay()
        out.append(r)
    return out


def selector_tables_private(prop="C10", replay=None):
    """the uniqueness of identifiers (contract {prop}.A.NameSelector.get_name) is an invariant of the selector's two tables over its whole life: every entity of the project goes
    through the one project-wide selector, and nothing but NameSelector's own methods reads or writes `_items` / `_counts` - no other code of the package resets or edits them
    (a page shows page-less items of several files: numbering that restarts per file repeats anchors)."""
    import ast, os
    from harness import loader
    from harness.core import OR, PROVED, REFUTED
    root = os.path.dirname(loader.module_path("ford.output"))
    bad = []
    for name in sorted(os.listdir(root)):
        if not name.endswith(".py"):
            continue
        tree = ast.parse(open(os.path.join(root, name), encoding="utf-8").read())
        inside = {id(n) for c in ast.walk(tree) if isinstance(c, ast.ClassDef) and c.name == "NameSelector" for n in ast.walk(c)}
        for n in ast.walk(tree):
            if isinstance(n, ast.Attribute) and n.attr in ("_items", "_counts") and id(n) not in inside:
                bad.append((name, n.lineno, ast.unparse(n)))
    r = OR(id=f"{prop}.S.NameSelector.tables_are_touched_by_the_selector_only", status=REFUTED if bad else PROVED, kind="S", role="invariant", backend="ast", target="ford/*.py",
           desc="no access to `_items` / `_counts` outside class NameSelector anywhere in the package")
    if bad:
        r.witness = {"sites": bad}
        r.detail = f"{bad[0][0]}:{bad[0][1]} `{bad[0][2]}` reaches into the name selector: identifiers handed out before and after are no longer told apart"
        if replay:
            r.replay = replay()
    return [r]

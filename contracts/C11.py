"""C11 - [[...]] references link to the entity the documented rules select.  DESIGN.md section 6, C11."""
from __future__ import annotations
import time
import z3
from harness.core import Task, OR, PROVED, REFUTED
from harness import loader
from contracts import links
from contracts.common import *

PROP = "C11"


def link_re_task():
    def run():
        from revc.oblig import RX, lang_nonempty
        from revc import spec as SP
        from revc.spec import seq, alt, opt, lit, plus, cls
        from revc.translate import WORD
        md = loader.import_repo("ford._markdown")
        rx = RX("ford._markdown.FordLinkProcessor.LINK_RE", md.FordLinkProcessor.LINK_RE, "match")
        W = plus(cls(WORD))
        part = lambda: seq(W, opt(seq(lit("("), W, lit(")"))))
        spec = seq(lit("[["), seq(W, opt(seq(lit("."), W))), opt(seq(lit("("), W, lit(")"))), opt(seq(lit(":"), part())), lit("]]"))
        out = [lang_nonempty(f"{PROP}.B.LINK_RE.spec_inhabited", rx.name, spec, "documented reference spellings"),
               rx.covers(f"{PROP}.B.LINK_RE.covers_documented_spellings", spec, "[[name]], [[name(kind)]], [[name:item]], [[name(kind):item(kind)]], file names with a dot"),
               rx.excludes(f"{PROP}.B.LINK_RE.excludes_single_brackets", seq(lit("["), W, lit("]")), "an ordinary Markdown [text] is not a FORD reference")]
        g = rx.covers(f"{PROP}.B.LINK_RE.mustfail", seq(lit("[["), W, lit(":"), lit("]]")), "must-fail: a colon without an item is not covered", must_fail=True)
        g.kind = "G"
        out.append(g)
        return out
    return Task(f"{PROP}.B.LINK_RE", PROP, "LINK_RE", run)


def bounded_task():
    def run():
        from bounded import c11
        t0 = time.time()
        hit = c11.search()
        r = OR(id=f"{PROP}.Bd.markdown.references", status=REFUTED if hit else PROVED, kind="Bd", role="bounded", target="ford._markdown.MetaMarkdown.convert (real, with the real project)",
               desc="two modules re-using names (state, current, run; a type with a same-named constructor interface): references written in module, procedure, variable and project-page "
                    "contexts, with and without kind qualifiers and child parts, an absent target, a code span", bound=f"{c11.count_cases()} references", cases=c11.count_cases(),
               seconds=time.time() - t0, backend="enumeration")
        if hit:
            r.replay, r.witness = hit, hit["input"]
        return [r]
    return Task(f"{PROP}.Bd.markdown", PROP, "real markdown", run)


def site_refs_task():
    def run():
        from bounded import c11
        t0 = time.time()
        hit = c11.site_references()
        r = OR(id=f"{PROP}.Bd.site.references_below_a_page_and_in_summaries", status=REFUTED if hit else PROVED, kind="Bd", role="bounded", target="ford.main (whole site)",
               desc="references in the comments of a procedure's local type, its component and binding, and in `summary:` metadata (shown on three kinds of pages): links to the right page from where they stand",
               bound=f"1 project, {len(c11.SITE_LINKS)} expected links + every link of the site followed", cases=len(c11.SITE_LINKS), seconds=time.time() - t0, backend="enumeration")
        if hit:
            r.replay, r.witness = hit, hit["input"]
        return [r]
    return Task(f"{PROP}.Bd.site_refs", PROP, "site", run)


def pages_task():
    def run():
        from bounded import c17
        t0 = time.time()
        hit = c17.search(nrandom=0, names=("three levels", "basic"))
        r = OR(id=f"{PROP}.Bd.site.references_on_static_pages", status=REFUTED if hit else PROVED, kind="Bd", role="bounded", target="ford.main with page_dir (whole site)",
               desc="[[...]] references written on static pages at three nesting depths link to the entity's page (every link of the written pages is followed)",
               bound="2 page directories", cases=2, seconds=time.time() - t0, backend="enumeration")
        if hit:
            r.replay, r.witness = hit, hit["input"]
        return [r]
    return Task(f"{PROP}.Bd.static_pages", PROP, "static pages", run)


def build(tier, seed):
    set_tier(tier)
    def _w(mk):
        def mk2():
            from bounded import c11
            c = mk(PROP)
            c.search_fn = c11.search
            return c
        mk2.__name__ = mk.__name__
        return mk2
    def _ptd():
        from contracts import settingsc
        from bounded import c11
        c = settingsc.parse_to_dict(PROP)
        c.search_fn = c11.extra_mods_quoted
        return c
    _ptd.__name__ = "parse_to_dict"
    def _incl():
        from contracts import plumbing
        from bounded import c09
        return plumbing.sourcefile_gets_incl_src(PROP, lambda: c09.site_search(shape_names=("constructors local types and file links",), options=[c09.OPTIONS[1]]))
    def _get_name():
        from bounded import c10
        from contracts import names
        c = names.get_name(PROP)
        c.search_fn = c10.search
        return c
    _get_name.__name__ = "get_name"

    def _rebase():
        from bounded import c16
        from contracts import external
        c = external.dict2obj_rebase(PROP)
        c.search_fn = lambda: c16.search(("remote",))
        return c
    _rebase.__name__ = "dict2obj_rebase"

    def _one():
        from bounded import c16
        from contracts import external
        c = external.load_external_one(PROP)
        c.search_fn = lambda: c16.search(("remote",))
        return c
    _one.__name__ = "load_external_one"
    tasks = [Task(f"{PROP}.S.normalise_path", PROP, "ford.utils.normalise_path", lambda: [__import__("contracts.confine", fromlist=["x"]).normalise_path_resolves(
                  PROP, "the links of a static page are computed between the output directory and the page's resolved output path: both sides must be resolved, symbolic links included")]),
             a_task(PROP, _get_name), a_task(PROP, _rebase), a_task(PROP, _one), Task(f"{PROP}.S.incl_src", PROP, "Project._fortran_file", _incl),
             a_task(PROP, _w(links.find_in_list)), a_task(PROP, _w(links.project_find_tail)), a_task(PROP, _w(links.convert_link_lookup)), link_re_task(),
             a_task(PROP, _ptd),
             Task(f"{PROP}.S.no_memo", PROP, "FordLinkProcessor.handleMatch", lambda: links.no_memo_obligation(PROP, lambda: __import__("bounded.c11", fromlist=["x"]).search())),
             Task(f"{PROP}.S.page_of_the_context", PROP, "MetaMarkdown.convert / FortranBase.markdown", lambda: links.page_of_the_context(PROP, lambda: __import__("bounded.c11", fromlist=["x"]).site_references())),
             site_refs_task(),
             Task(f"{PROP}.S.kind_tables", PROP, "LINK_TYPES / SUBLINK_TYPES", lambda: links.kind_tables(PROP)), bounded_task(), pages_task(),
             Task(f"{PROP}.S.static_pages", PROP, "PageNode.__init__", lambda: __import__("contracts.pages", fromlist=["x"]).convert_path_obligation(PROP))]
    meta = {
        "trusted_base": TRUSTED_BASE,
        "assumptions": PYVC_ASSUMPTIONS + REVC_ASSUMPTIONS + [
            "entity.find_child(name, kind) and project.find(...) are uninterpreted at the call sites of convert_link (result and 'raises ValueError' as functions of receiver and "
            "arguments); Optional[str] arguments are encoded with '' for None",
            "oracle (user guide): the documented entity's own contents, then its parent's, then the whole project; a kind that cannot exist in a scope only skips that scope; the "
            "child part is resolved inside the found item with its own kind; if only the child part fails, the page of the item is linked",
            "kind tables are compared with the tables printed in docs/user_guide/writing_documentation.rst (transcribed into the contract)",
        ],
        "functions_under_contract": fn_meta([("ford.sourceform", "_find_in_list", None),
                                             ("ford.fortran_project", "Project.find", "block contract: the child-part tail"),
                                             ("ford._markdown", "FordLinkProcessor.convert_link", "block contract: the lookup part (closure find_child executed in line)")]) +
        [{"constant": "FordLinkProcessor.LINK_RE"}, {"data": "LINK_TYPES, SUBLINK_TYPES"}],
        "unverified_surroundings": ["FortranBase.find_child and the head of Project.find (attribute names computed at run time)", "href computation (relpath) and python-markdown's "
                                    "pattern priority (code spans)", "hidden targets (C05)"],
        "explanation": "The lookup order of convert_link, the resolution of the child part in Project.find, the first-match rule of _find_in_list and the kind tables are under contract.",
    }
    return tasks, meta

"""Engine B contracts on the lexical-layer regex constants (ford/reader.py COM_RE, _compile_docmark; sourceform QUOTES_RE)."""
from __future__ import annotations
import re
import z3
from harness.core import OR, PROVED, REFUTED, UNKNOWN, ERROR
from harness import loader
from revc.oblig import RX, lang_nonempty, langs_disjoint, _solve
from revc.translate import top_items, lang_of_items, find_group, re_full, Unsupported, ALL
from revc import spec as SP
from specs import lex
import re._constants as C

NL = 10


def lex_delta_sets():
    """transition table of the spec automaton (specs/lex.py) over ASCII, as DFA edges"""
    names = {lex.CODE: "C", lex.SQ: "S", lex.DQ: "D"}
    d = {}
    for g, gn in names.items():
        for c in ALL:
            h = lex.py_delta(g, chr(c))
            d.setdefault((gn, names[h]), set()).add(c)
    return d


def comment_spec(marker: str):
    """lines in which the first '!' read in state CODE is followed by `marker`; a line is text + optional final newline"""
    d = lex_delta_sets()
    # '!' in CODE starts the comment: remove it from C's self loop
    d[("C", "C")] = d[("C", "C")] - {33}
    states = ["C", "S", "D"]
    prev = "C"
    chain = "!" + marker
    for i, ch in enumerate(chain):
        st = f"M{i}"
        states.append(st)
        d[(prev, st)] = {ord(ch)}
        prev = st
    d[(prev, prev)] = ALL - {NL}
    states.append("E")
    d[(prev, "E")] = {NL}
    return SP.dfa_to_re(states, "C", [prev, "E"], d)


def code_prefix_spec():
    """strings that end in state CODE and contain no '!' read in state CODE"""
    d = lex_delta_sets()
    d[("C", "C")] = d[("C", "C")] - {33}
    return SP.dfa_to_re(["C", "S", "D"], "C", ["C"], d)


def literal_spec():
    """one Fortran character literal: delimiter, body with doubled delimiters, delimiter"""
    def one(q):
        d = {("0", "1"): {q}, ("1", "1"): ALL - {q}, ("1", "2"): {q}, ("2", "1"): {q}}
        return SP.dfa_to_re(["0", "1", "2"], "0", ["2"], d)
    return SP.alt(one(39), one(34))


def comment_regex_obligations(prop, name, pat: re.Pattern, marker: str):
    """contract of a comment-detecting pattern of the shape ^PREFIX*(!marker.*)$ :
       (1) match existence == spec automaton; (2) the prefix sub-pattern == 'ends in CODE, no ! in CODE';
       (3) group 4 starts at a unique position (so match.start(4) is THE comment start)."""
    out = []
    rx = RX(name, pat, "match")
    pid = f"{prop}.B.{name.split('.')[-1]}" + (f"[{marker}]" if marker else "")
    spec = comment_spec(marker)
    out.append(lang_nonempty(pid + ".spec_inhabited", name, spec, "comment lines"))
    out.append(rx.equiv(pid + ".equiv_automaton", spec, f"matches exactly the lines whose first '!' in state CODE is followed by {marker!r}"))
    # must-fail twin: the pattern is NOT equivalent to 'any line containing !'
    anybang = SP.seq(SP.star(SP.cls(ALL)), SP.lit("!" + marker), SP.star(SP.cls(ALL)))
    g = rx.equiv(pid + ".mustfail.not_any_bang", anybang, "must-fail: pattern is not 'contains !' (quotes matter)", must_fail=True)
    g.kind = "G"
    out.append(g)
    try:
        items, fl = top_items(pat)
        gi = find_group(items, 4)
        if gi is None or items[0][0] != C.AT:
            raise Unsupported("pattern no longer has the shape ^PREFIX(group4)$")
        prefix_items = items[1:gi]
        P = lang_of_items(prefix_items, fl)
        grp = items[gi][1][3]
        if not grp or grp[0][0] != C.LITERAL or grp[0][1] != 33:
            raise Unsupported("group 4 does not start with a literal '!'")
        st, w, dt, smt = _solve(lambda s: [z3.Xor(z3.InRe(s, P), z3.InRe(s, code_prefix_spec()))])
        r = OR(id=pid + ".prefix_equiv", status=st, kind="B", target=name, seconds=dt, smt=smt, backend="z3-seq",
               desc="the sub-pattern before group 4 matches exactly the texts that end in state CODE without a '!' in state CODE")
        if st == REFUTED:
            r.witness = {"string": w}
            sub = re.compile(pat.pattern[: pat.pattern.index("(!")] + "$") if "(!" in pat.pattern else None
            real = bool(sub.match(w)) if sub else None
            exp = lex.py_run(w) == lex.CODE and lex.py_comment_start(w) is None
            r.replay = {"confirmed": real is not None and real != exp, "actual": real, "expected": exp, "how": "prefix sub-pattern vs automaton"}
        elif st == UNKNOWN:
            r.detail = str(w)
        out.append(r)
        # unique split: no prefix-match is a proper prefix (followed by '!') of another prefix-match
        st, w, dt, smt = _solve(lambda s: [z3.InRe(s, P), z3.InRe(s, z3.Concat(P, SP.lit("!"), re_full()))])
        r = OR(id=pid + ".unique_split_group4", status=st, kind="B", target=name, seconds=dt, smt=smt, backend="z3-seq",
               desc="group 4 starts at the same position in every successful parse (P ∩ P·'!'·Σ* = ∅)")
        if st == REFUTED:
            r.witness = {"string": w}
            r.replay = {"confirmed": True, "how": "two parses of the same line put the comment start at different positions", "input": w}
        elif st == UNKNOWN:
            r.detail = str(w)
        out.append(r)
    except Unsupported as e:
        out.append(OR(id=pid + ".shape", status=UNKNOWN, kind="B", target=name, detail=f"unsupported: {e}"))
    return out


def quotes_re_obligations(prop):
    sf = loader.import_repo("ford.sourceform")
    name = "ford.sourceform.QUOTES_RE"
    rx = RX(name, sf.QUOTES_RE, "fullmatch")
    spec = literal_spec()
    out = [lang_nonempty(f"{prop}.B.QUOTES_RE.spec_inhabited", name, spec, "literals"),
           rx.equiv(f"{prop}.B.QUOTES_RE.equiv_literal", spec, "fullmatch == one Fortran character literal (either delimiter, doubled delimiters inside)")]
    g = rx.equiv(f"{prop}.B.QUOTES_RE.mustfail.no_doubling", SP.alt(SP.seq(SP.lit("'"), SP.star(SP.notcls({39})), SP.lit("'")),
                                                                   SP.seq(SP.lit('"'), SP.star(SP.notcls({34})), SP.lit('"'))),
                 "must-fail: differs from the literal without doubled delimiters", must_fail=True)
    g.kind = "G"
    out.append(g)
    return out


def ambiguous_repeat_obligations(prop):
    """no pattern of the parsing modules repeats, without bound, a group one of whose alternatives is itself nothing but an unbounded repeat (`(x+|y)*`): such a group can
    split a run of x in exponentially many ways, and a line on which the overall match fails (an unclosed quote, say) is then tried in all of them - the run hangs.
    Read from CPython's parse of every compiled pattern of the modules (re._parser), on every run."""
    try:
        import re._parser as sp, re._constants as sc
    except ImportError:                         # Python < 3.11
        import sre_parse as sp, sre_constants as sc
    from bounded import retime
    out = []

    def alts(seq):
        """the alternatives (item sequences) a sub-pattern consists of"""
        items = list(seq)
        if len(items) == 1 and items[0][0] is sc.SUBPATTERN:
            return alts(items[0][1][3])
        if len(items) == 1 and items[0][0] is sc.BRANCH:
            return [a for b in items[0][1][1] for a in alts(b)]
        return [items]

    def unbounded(item):
        return item[0] in (sc.MAX_REPEAT, sc.MIN_REPEAT) and item[1][1] == sc.MAXREPEAT

    def walk(seq, found):
        for item in seq:
            op, av = item
            if unbounded(item):
                for a in alts(av[2]):
                    if len(a) == 1 and unbounded(a[0]):
                        found.append(True)
                walk(av[2], found)
            elif op is sc.SUBPATTERN:
                walk(av[3], found)
            elif op is sc.BRANCH:
                for b in av[1]:
                    walk(b, found)
            elif op in (sc.MAX_REPEAT, sc.MIN_REPEAT):
                walk(av[2], found)
            elif op in (sc.ASSERT, sc.ASSERT_NOT):
                walk(av[1], found)
    pats = retime.patterns()
    bad = []
    for name, p in pats:
        found = []
        try:
            walk(sp.parse(p.pattern, p.flags), found)
        except Exception:
            continue
        if found:
            bad.append(name)
            r = OR(id=f"{prop}.B.{name}.no_repeat_of_a_bare_repeat", status=REFUTED, kind="B", role="post", backend="sre-parse", target=name,
                   desc=f"`{p.pattern[:70]}`: an unbounded repeat one of whose alternatives is a bare unbounded repeat")
            r.witness = {"pattern": p.pattern[:200]}
            r.detail = "exponentially many ways to split a run: a line on which the match fails is tried in all of them"
            out.append(r)
    out.append(OR(id=f"{prop}.B.patterns.no_repeat_of_a_bare_repeat", status=PROVED if not bad else REFUTED, kind="B", role="post", backend="sre-parse", target="compiled patterns of the parsing modules",
                  desc=f"{len(pats)} compiled patterns: none repeats without bound a group that has a bare unbounded repeat among its alternatives", witness={"patterns": bad} if bad else None))
    return out


"""C05 - the site documents exactly the entities selected by the display options (selection half).  DESIGN.md section 6, C05."""
from __future__ import annotations
from harness.core import Task, OR, PROVED, REFUTED
from contracts import display, tmpl_links
from contracts.common import *

PROP = "C05"


def _with_search(mk):
    def mk2():
        from bounded import c05
        c = mk()
        c.search_fn = c05.search
        return c
    mk2.__name__ = mk.__name__
    return mk2


def bounded_task():
    def run():
        import time
        from bounded import c05
        t0 = time.time()
        hit = c05.search()
        r = OR(id=f"{PROP}.Bd.pipeline.prune_postcondition", status=REFUTED if hit else PROVED, kind="Bd", role="bounded",
               target="ford.fortran_project.Project.correlate (real pipeline)",
               desc="executable prune postcondition on generated modules x display x hide_undoc x proc_internals",
               bound=f"{c05.count_cases()} generated (program, settings) cases: one module or one procedure holding one entity of every kind",
               cases=c05.count_cases(), seconds=time.time() - t0, backend="enumeration")
        if hit:
            r.replay, r.witness = hit, hit["input"]
        return [r]
    return Task(f"{PROP}.Bd.pipeline", PROP, "real pipeline", run)


def site_task():
    def run():
        import time
        from bounded import c05
        t0 = time.time()
        hit = c05.site_cases()
        r = OR(id=f"{PROP}.Bd.site.links_and_text_of_unselected_entities", status=REFUTED if hit else PROVED, kind="Bd", role="bounded", target="ford (full run)",
               desc="complete sites for three projects (a separate module procedure with its implementation in a submodule; a public type extending a hidden one; a common block "
                    "also used by a hidden procedure), default display: every link, including those written into popover attributes, leads to a written page, and the comment text "
                    "of the unselected entities is in no page and not in the search index",
               bound=f"{len(c05.SITE_CASES)} generated sites", cases=len(c05.SITE_CASES), seconds=time.time() - t0, backend="enumeration")
        if hit:
            r.replay, r.witness = hit, hit["input"]
        return [r]
    return Task(f"{PROP}.Bd.site", PROP, "full run", run)


def _constructor():
    from contracts import access
    from bounded import c05
    c = access.constructor_block(PROP)
    c.search_fn = c05.hidden_constructor
    return c


_constructor.__name__ = "constructor_block"


def build(tier, seed):
    set_tier(tier)
    tasks = [standin_task(PROP, "projects.hide_undoc_export", lambda: __import__("bounded.c16", fromlist=["x"]).search(("hide_undoc",)), "ford.main on project A (externalize, hide_undoc) then project B",
                          "entities that the display options of A exclude are exported without an address: B has no link to a page that A did not write", "1 project pair"),
             a_task(PROP, display.should_display), a_task(PROP, display.filter_display2),
             a_task(PROP, _with_search(display.prune_codeunit)), a_task(PROP, _with_search(display.prune_type)),
             a_task(PROP, _with_search(display.prune_blockdata)), a_task(PROP, display.str_method), a_task(PROP, display.basenode_url_block),
             a_task(PROP, display.set_display),
             Task(f"{PROP}.S.EntitySettings", PROP, "ford.settings.EntitySettings.from_project_settings", lambda: display.entity_settings_default_display(PROP) + display.project_lists_follow_selection(PROP)),
             a_task(PROP, _constructor),
             Task(f"{PROP}.S.casefold.metadata_key", PROP, "ford.sourceform.FortranBase.read_metadata", lambda: __import__("contracts.casefold", fromlist=["x"]).metadata_key_obligation(PROP, lambda: __import__("bounded.c05", fromlist=["x"]).metadata_key_case())),
             Task(f"{PROP}.S.templates.docstring", PROP, "ford/templates/macros.html", lambda: tmpl_links.summary_obligations(PROP, lambda: __import__("bounded.c05", fromlist=["x"]).site_cases("hidden_specifics_with_long_docs"))),
             Task(f"{PROP}.S.templates.entity_links", PROP, "ford/templates", lambda: tmpl_links.obligations(PROP, lambda name, line: __import__("bounded.c05", fromlist=["x"]).site_cases())),
             bounded_task(), site_task()]
    meta = {
        "trusted_base": TRUSTED_BASE,
        "assumptions": PYVC_ASSUMPTIONS + [
            "heap model: field kinds as declared in contracts/heapmodel.py; `permission` is read as a field (the property "
            "FortranProcedure.permission has its own contract under C04)",
            "assumed contract: FortranBase.iterator(*names) yields the named existing list attributes in argument order (generator, outside the subset)",
            "assumed callee contract for the recursive obj.prune() calls: writes child-list fields and visible flags of strictly deeper "
            "entities only (entity forest), never clears `visible`, does not mutate existing list objects",
            "oracle: selected(parent, x) <=> x.permission in parent.display and (not hide_undoc or x has documentation); with proc_internals "
            "off a procedure shows none of " + ", ".join(display.HIDDEN_EMPTY) + " (namelists exempt: they have pages of their own by design)",
        ],
        "functions_under_contract": fn_meta([("ford.sourceform", "FortranBase._should_display", None), ("ford.sourceform", "FortranBase.filter_display", None),
                                             ("ford.sourceform", "FortranCodeUnit.prune", None), ("ford.sourceform", "FortranType.prune", None),
                                             ("ford.sourceform", "FortranBlockData.prune", None), ("ford.sourceform", "FortranBase.__str__", None),
                                             ("ford.sourceform", "FortranBase._set_display", "requires: not a source file (the `none`-stripping while loop is not covered)"),
                                             ("ford.graphs", "BaseNode.__init__", "block contract: the final `if self.url and getattr(obj, 'visible', True)` statement"),
                                             ("ford.settings", "EntitySettings.from_project_settings", "AST-level postcondition (keyword constructor call)")]),
        "unverified_surroundings": ["what the Jinja templates print", "the search index", "Project.correlate gathering block", "read_metadata (composition of from_project_settings, "
                                    "meta.update and _set_display)", "FordLinkProcessor"],
        "not_addressed": ["rendered HTML and search_database.json: no contract can express them (templates are not Python functions)"],
        "explanation": "Selection half of C05: _should_display equals the oracle, filter_display is the order-preserving filter by it, and each prune() "
                       "leaves in every child list of the unit exactly the selected members (all child lists read from FortranBase.children that carry an accessibility).",
    }
    return tasks, meta

"""Heap typing for ford.sourceform entities (field name -> kind), shared by the heap contracts.
Field kinds: int | bool | str | ref[:Class] | list:<elem> | dict:<key>:<val> | opaque:<tag>"""
from __future__ import annotations
import z3
from pyvc.classes import ClassModel

CHILD_LISTS = ["functions", "subroutines", "types", "interfaces", "absinterfaces", "variables", "modprocedures", "modsubroutines",
               "modfunctions", "enums", "common", "namelists", "boundprocs", "finalprocs", "modules", "submodules", "programs",
               "blockdata", "args", "bindings", "modprocs", "descendants", "local_variables", "contents"]

FIELDS = {
    "name": "str", "obj": "str", "permission": "str", "_permission": "str", "visible": "bool", "parent": "ref", "settings": "ref", "meta": "ref",
    "hide_undoc": "bool", "proc_internals": "bool", "doc_list": "list:str", "display": "list:str",
    "generic": "bool", "abstract": "bool", "module": "opaque:module", "mp": "bool", "procedure": "ref", "retvar": "ref", "constructor": "ref",
    "extends": "opaque:extends", "vartype": "str", "proctype": "str", "attribs": "list:str", "intent": "str", "dimension": "str", "initial": "opaque:initial",
    "parent_submodule": "ref", "ancestor_module": "ref", "external_url": "str", "deferred": "bool", "proto": "opaque:proto",
    "all_procs": "dict:str:ref", "all_types": "dict:str:ref", "all_vars": "dict:str:ref", "all_absinterfaces": "dict:str:ref",
    "pub_procs": "dict:str:ref", "pub_types": "dict:str:ref", "pub_vars": "dict:str:ref", "pub_absints": "dict:str:ref",
    "public_list": "list:str", "uses": "opaque:uses", "calls": "opaque:calls", "num_lines": "int",
    "_items": "dict:ref:str", "_counts": "opaque:counts",
}
for _l in CHILD_LISTS:
    FIELDS[_l] = "list:ref"

_cm = None


def class_model():
    global _cm
    if _cm is None:
        _cm = ClassModel("ford.sourceform")
    return _cm


def reset():
    global _cm
    _cm = None

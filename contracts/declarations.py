"""Engine A / structural contracts for rendered declarations (C18): FortranVariable.full_type and the escaping of source text in the templates."""
from __future__ import annotations
import ast, os
import z3
from pyvc.contract import *
from pyvc.values import *
from harness.core import OR, PROVED, REFUTED, UNKNOWN, ERROR
from harness import loader
from contracts.display import H, sel, base

I, S, B = z3.IntSort(), z3.StringSort(), z3.BoolSort()


def full_type(prop="C18"):
    c = base(Contract("ford.sourceform", "FortranVariable.full_type", prop))
    c.fields.update({"vartype": "str", "kind": "str", "strlen": "str", "proto": "list:str"})
    c.param("self", TRef("FortranVariable"))
    c.assumed.append("Optional[str] fields kind / strlen are encoded with '' for None (both are falsy); proto is None or a two-element list [name or entity, parameters]: "
                     "encoded as a list of the two display strings (str(entity) for a resolved prototype), empty for None")
    kind = lambda v: sel(H(v, "kind"), v.self)
    strlen = lambda v: sel(H(v, "strlen"), v.self)
    vt = lambda v: sel(H(v, "vartype"), v.self)
    proto = lambda v: v.heap.list_get(SList(sel(H(v, "proto"), v.self), "str"))
    c.hints["list"] = "str"          # parameter_parts = []: a list of strings
    c.requires("proto_is_empty_or_a_pair", lambda v: z3.Or(z3.Length(proto(v)) == 0, z3.Length(proto(v)) == 2))
    sv = z3.StringVal

    def post(v0, res, v1):
        k, l, p = kind(v0), strlen(v0), proto(v0)
        kpart, lpart = z3.Concat(sv("kind="), k), z3.Concat(sv("len="), l)
        params = z3.If(z3.And(z3.Length(k) > 0, z3.Length(l) > 0), z3.Concat(kpart, sv(", "), lpart), z3.If(z3.Length(k) > 0, kpart, lpart))
        p0, p1 = STR_OF(p[0]), STR_OF(p[1])
        pr = z3.Concat(p0, z3.If(z3.Length(p1) > 0, z3.Concat(sv("("), p1, sv(")")), sv("")))
        want = z3.Concat(vt(v0), z3.If(z3.Or(z3.Length(k) > 0, z3.Length(l) > 0), z3.Concat(sv("("), params, sv(")")),
                                       z3.If(z3.Length(p) > 0, z3.Concat(sv("("), pr, sv(")")), sv(""))))
        return v1._e.to_str(v1._p, res) == want
    c.ensures("type_then_kind_and_len_or_prototype_exactly_as_parsed", post)
    c.no_raise = True
    c.z3_timeout_ms, c.cvc5_on_unknown = 8000, True
    return c


# ------------------------------------------------------------------ templates: source text is escaped where it is printed
SOURCE_TEXT_ATTRS = ("initial", "bindC")          # attributes that hold text copied from the source and never markup


def template_escapes(prop="C18"):
    import jinja2, jinja2.nodes as N
    out = []
    # the environment does not auto-escape, so every site needs its own filter
    mod = loader.module_source("ford.output")[1]
    auto = None
    for n in ast.walk(mod):
        if isinstance(n, ast.Call) and ast.unparse(n.func) == "jinja2.Environment":
            auto = next((ast.unparse(k.value) for k in n.keywords if k.arg == "autoescape"), "False")
    out.append(OR(id=f"{prop}.S.env.autoescape_is_off", status=PROVED if auto == "False" else UNKNOWN, kind="S", role="pre", backend="ast", target="ford.output.env",
                  desc="the Jinja environment is created without autoescape (so the per-site obligations below are the ones that matter)", detail="" if auto == "False" else f"autoescape={auto}"))
    env = jinja2.Environment()
    tdir = os.path.join(os.path.dirname(loader.module_path("ford.output")), "templates")
    sites = 0
    for name in sorted(os.listdir(tdir)):
        if not name.endswith(".html"):
            continue
        tree = env.parse(open(os.path.join(tdir, name), encoding="utf-8").read())
        for outn in tree.find_all(N.Output):
            for expr in outn.nodes:
                if isinstance(expr, N.TemplateData):
                    continue
                reads = [g.attr for g in expr.find_all(N.Getattr) if g.attr in SOURCE_TEXT_ATTRS]
                if isinstance(expr, N.Getattr) and expr.attr in SOURCE_TEXT_ATTRS:
                    reads.append(expr.attr)
                if not reads:
                    continue
                sites += 1
                escaped = isinstance(expr, N.Filter) and expr.name in ("e", "escape", "forceescape")
                # a conditional expression / test that only looks at the value does not print it
                prints = not isinstance(expr, (N.Test, N.Compare))
                ok = escaped or not prints
                out.append(OR(id=f"{prop}.S.templates.{name}.L{expr.lineno}.{reads[0]}_is_escaped", status=PROVED if ok else REFUTED, kind="S", role="post", backend="jinja2-ast",
                              target=f"ford/templates/{name}:{expr.lineno}", desc=f"the printed expression that reads .{reads[0]} (text copied from the source) ends in the escape filter",
                              witness=None if ok else {"template": name, "line": expr.lineno, "expression": type(expr).__name__, "reads": reads}))
    out.append(OR(id=f"{prop}.G.templates.sites_found", status=PROVED if sites >= 4 else ERROR, kind="G", role="guard", backend="jinja2-ast", target="ford/templates",
                  desc=f"{sites} printed expressions read an initial value or a bind name"))
    return out


FULLTYPE = z3.Function("FULL_TYPE_OF", I, S)
SI = z3.SeqSort(I)
PARTS = z3.Function("DECL_PARTS_PREFIX", SI, I, SI)      # [f", {part}" for part in seq[0:k]] over interned strings
TAIL = z3.Function("DECL_TAIL", SI, I, S)               # ''.join of that: ", p0, p1, ..."


def full_declaration(prop="C18"):
    c = base(Contract("ford.sourceform", "FortranVariable.full_declaration", prop))
    c.fields.update({"attribs": "list:str", "dimension": "str", "parameter": "bool"})
    c.param("self", TRef("FortranVariable"))
    c.props["full_type"] = lambda eng, path, obj: SStr(FULLTYPE(obj.t))
    c.hints["listcomp"] = "str"
    E = lambda v: V(v._e, v._e.entry)
    sv = z3.StringVal

    def copy_copy(eng, path, e, args, recv):
        src = args[0]
        if not isinstance(src, SList):
            raise EngineError("copy.copy of a non-list")
        new = eng.new_list(path, [], e, elem=src.elem)
        path.heap.list_set(new, path.heap.list_get(src))
        return new
    c.calls["copy.copy"] = copy_copy
    c.assumed.append("callee contract: self.full_type is a pure function of the variable (its value is the subject of the full_type contract); copy.copy(list) is a new list "
                     "with the same elements; ''.join satisfies join(xs + [x]) == join(xs) + x and join([]) == '' (instantiated where the proof needs them)")

    def unfold(v):
        seq = v.it.seq
        cur = v._lc0
        nxt = z3.Concat(cur, z3.Unit(SID(z3.Concat(sv(", "), STR_OF(seq[v.k])))))
        E0 = sv("")
        return [PARTS(seq, 0) == z3.Empty(SI), TAIL(seq, 0) == E0,
                PARTS(seq, v.k + 1) == z3.Concat(PARTS(seq, v.k), z3.Unit(SID(z3.Concat(sv(", "), STR_OF(seq[v.k]))))),
                TAIL(seq, v.k + 1) == z3.Concat(TAIL(seq, v.k), sv(", "), STR_OF(seq[v.k])),
                # defining equations of ''.join on the two lists the loop goes through
                STRJOIN(E0, z3.Empty(SI)) == E0,
                STRJOIN(E0, nxt) == z3.Concat(STRJOIN(E0, cur), sv(", "), STR_OF(seq[v.k])),
                STR_OF(SID(z3.Concat(sv(", "), STR_OF(seq[v.k])))) == z3.Concat(sv(", "), STR_OF(seq[v.k]))]
    c.loop(0, invariants=[("parts_prefix", lambda v: v._lc0 == PARTS(v.it.seq, v.k)),
                          ("joined_prefix", lambda v: STRJOIN(sv(""), v._lc0) == TAIL(v.it.seq, v.k)),
                          ("frame", lambda v: z3.And(v.self == E(v).self))],
           unfold=unfold, variant=lambda v: z3.Length(v.it.seq) - v.k)

    def post(v0, res, v1):
        a = v0.heap.list_get(SList(sel(H(v0, "attribs"), v0.self), "str"))
        dim = sel(H(v0, "dimension"), v0.self)
        par = sel(H(v0, "parameter"), v0.self)
        parts = z3.Concat(a, z3.If(z3.Length(dim) > 0, z3.Unit(SID(dim)), z3.Empty(SI)), z3.If(par, z3.Unit(SID(sv("parameter"))), z3.Empty(SI)))
        return v1._e.to_str(v1._p, res) == z3.Concat(FULLTYPE(v0.self), TAIL(parts, z3.Length(parts)))
    c.ensures("full_type_then_every_attribute_the_dimension_and_parameter_each_after_a_comma", post)

    def frame(v0, res, v1):
        # a display string is computed, nothing is stored: the variable's own attribute list is what it was (the text is rendered on several pages, twice per page with search on)
        l = SList(sel(H(v0, "attribs"), v0.self), "str")
        return z3.And(v1.heap.list_get(l) == v0.heap.list_get(l), H(v1, "attribs") == H(v0, "attribs"), H(v1, "dimension") == H(v0, "dimension"))
    c.ensures("the_variable_s_own_attribute_list_is_untouched", frame, role="frame")
    c.no_raise = True
    c.z3_timeout_ms, c.cvc5_on_unknown = 8000, True
    return c


def literal_reinsertion_is_last(prop="C18"):
    """line_to_variables: once the captured literals are put back into `initial`, nothing rewrites `initial` any more (so text inside a literal is only touched by the
    two documented transformations inside the re-insertion loop)"""
    fn = loader.find_def("ford.sourceform", "line_to_variables")
    out = []
    blocks = [n for n in ast.walk(fn) if isinstance(n, ast.If) and ast.unparse(n.test) == "initial"]
    oid = f"{prop}.S.line_to_variables.nothing_rewrites_the_value_after_literal_reinsertion"
    if len(blocks) != 1:
        return [OR(id=oid, status=UNKNOWN, kind="S", role="post", backend="ast", target="ford.sourceform.line_to_variables", detail=f"`if initial:` block: {len(blocks)} matches")]
    body = blocks[0].body
    loops = [i for i, st in enumerate(body) if isinstance(st, ast.While) and "QUOTES_RE.search(initial" in ast.unparse(st.test)]
    if len(loops) != 1:
        return [OR(id=oid, status=UNKNOWN, kind="S", role="post", backend="ast", target="ford.sourceform.line_to_variables", detail="re-insertion loop not found")]
    later = []
    # statements after the loop inside the block, and after the block up to the construction of the variable
    outer = None
    for n in ast.walk(fn):
        if isinstance(n, ast.For) and blocks[0] in n.body:
            outer = n
    after = body[loops[0] + 1:] + (outer.body[outer.body.index(blocks[0]) + 1:] if outer is not None else [])
    for st in after:
        for n in ast.walk(st):
            tg = n.targets if isinstance(n, ast.Assign) else [n.target] if isinstance(n, (ast.AugAssign, ast.AnnAssign)) else []
            if any(isinstance(t, ast.Name) and t.id == "initial" for t in tg):
                later.append(ast.unparse(n))
    # inside the loop only the two documented transformations may touch the literal text
    inside = [ast.unparse(n) for n in ast.walk(body[loops[0]]) if isinstance(n, ast.Assign) and any(isinstance(t, ast.Name) and t.id == "string" for t in n.targets)]
    allowed = ["string = NBSP_RE.sub('\\xa0', parent.strings[num])", "string = string.replace('\\\\', '\\\\\\\\')"]
    ok = not later and inside == allowed
    out.append(OR(id=oid, status=PROVED if ok else REFUTED, kind="S", role="post", backend="ast", target="ford.sourceform.line_to_variables",
                  desc="after the loop that puts the captured literals back, `initial` is only read; inside it a literal is changed only by the NBSP substitution for runs of blanks "
                       "and the doubling of backslashes", witness=None if ok else {"assignments to `initial` after the re-insertion": later, "transformations of the literal": inside}))
    return out


def rx_obligations(prop="C18"):
    """Engine B: the patterns parse_type uses to take kind / len values and the double-precision spellings apart"""
    from revc.oblig import RX, lang_nonempty
    from revc import spec as SP
    sf = loader.import_repo("ford.sourceform")
    out = []
    anything = SP.plus(SP.notcls(SP.chars("\n")))
    nonblank_start = SP.seq(SP.notcls(SP.chars("\n \t")), SP.star(SP.notcls(SP.chars("\n"))))
    kind = RX("ford.sourceform.KIND_RE", sf.KIND_RE, "fullmatch" if False else "match", prop)
    out.append(kind.covers(f"{prop}.B.KIND_RE.covers_any_value", SP.seq(SP.kw("kind"), SP.ws0, SP.lit("="), SP.ws0, nonblank_start),
                           "`kind = <expression>` is recognised whatever the expression contains (commas, parentheses, operators)"))
    ln = RX("ford.sourceform.LEN_RE", sf.LEN_RE, "match", prop)
    out.append(ln.covers(f"{prop}.B.LEN_RE.covers_any_value", SP.seq(SP.kw("len"), SP.ws0, SP.lit("="), SP.ws0, nonblank_start),
                         "`len = <expression>` is recognised whatever the expression contains"))
    out.append(ln.excludes(f"{prop}.B.LEN_RE.excludes_positional_values", SP.seq(SP.cls(SP.chars("0123456789*:(")), SP.star(SP.notcls(SP.chars("\n=")))),
                           "a positional length (`12`, `*`, `:`, `(n+1)`) is not taken for a `len=` parameter (the fall-through assigns it whole)"))
    dp = RX("ford.sourceform.DOUBLE_PREC_RE", sf.DOUBLE_PREC_RE, "match", prop)
    out.append(dp.covers(f"{prop}.B.DOUBLE_PREC_RE.covers_both_spellings", SP.seq(SP.kw("double"), SP.ws0, SP.kw("precision")), "`double precision` and `doubleprecision`, any case"))
    dc = RX("ford.sourceform.DOUBLE_CMPLX_RE", sf.DOUBLE_CMPLX_RE, "match", prop)
    out.append(dc.covers(f"{prop}.B.DOUBLE_CMPLX_RE.covers_both_spellings", SP.seq(SP.kw("double"), SP.ws0, SP.kw("complex")), "`double complex` and `doublecomplex`, any case"))
    # group 1 of KIND_RE / LEN_RE is the whole rest of the argument: the value is never cut
    import re as _re
    for name, pat in (("KIND_RE", sf.KIND_RE), ("LEN_RE", sf.LEN_RE)):
        ok = pat.pattern.endswith("(.+)") and pat.groups == 1
        out.append(OR(id=f"{prop}.S.{name}.value_group_takes_the_rest", status=PROVED if ok else REFUTED, kind="S", role="post", backend="sre", target=f"ford.sourceform.{name}",
                      desc="the capturing group of the value is `(.+)` at the end of the pattern: the value of the parameter is everything after the `=` (parse_type splits the "
                           "parameters at top-level commas before it applies the pattern)", witness=None if ok else {"pattern": pat.pattern}))
    return out

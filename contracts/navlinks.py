r"""C09 - the navigation templates link to a list page only under a condition that implies the condition under which Documentation.__init__ creates
that page.  Both sides are read on every run: the creation conditions from the AST of Documentation.__init__ (`if <cond>: self.lists.append(<Cls>(..))`,
<Cls>.out_page from the class body), the link guards from the jinja2 AST of every template under ford/templates (path condition of the TemplateData
node that contains `lists/<page>`).  Conditions are translated to linear integer arithmetic over the list lengths and discharged with z3:

    guard(template path)  /\  lengths >= 0  /\  len(files) >= 1   ==>   created(page)

Atoms the translation does not interpret (macro arguments, loop variables, filters other than |length) become unconstrained Booleans: the hypothesis
only gets weaker, so a proof stays a proof; a counter-model is reported with the project shape it describes and replayed by generating that shape."""
from __future__ import annotations
import ast, os, re, time
import z3
from harness import loader
from harness.core import OR, PROVED, REFUTED, UNKNOWN, ERROR

LISTS = ["files", "extra_files", "allfiles", "modules", "submodules", "procedures", "submodprocedures", "types", "absinterfaces", "blockdata", "programs", "namelists"]


class Atoms:
    def __init__(self):
        self.len = {}
        self.flags = {}
        self.opaque = 0

    def length(self, name):
        return self.len.setdefault(name, z3.Int(f"len_{name}"))

    def flag(self, name):
        return self.flags.setdefault(name, z3.Bool(name))

    def fresh(self, what):
        self.opaque += 1
        return z3.Bool(f"opaque{self.opaque}<{what[:30]}>")

    def axioms(self):
        ax = [v >= 0 for v in self.len.values()]
        if "allfiles" in self.len:
            ax.append(self.length("allfiles") == self.length("files") + self.length("extra_files"))
        return ax


# ---------------------------------------------------------------- python side
def py_int(n, A):
    if isinstance(n, ast.Constant) and isinstance(n.value, int) and not isinstance(n.value, bool):
        return z3.IntVal(n.value)
    if isinstance(n, ast.Call) and isinstance(n.func, ast.Name) and n.func.id == "len" and len(n.args) == 1:
        a = n.args[0]
        if isinstance(a, ast.Attribute) and isinstance(a.value, ast.Name) and a.value.id == "project":
            return A.length(a.attr)
    if isinstance(n, ast.BinOp) and isinstance(n.op, (ast.Add, ast.Sub)):
        l, r = py_int(n.left, A), py_int(n.right, A)
        if l is not None and r is not None:
            return l + r if isinstance(n.op, ast.Add) else l - r
    return None


CMP = {ast.Gt: lambda a, b: a > b, ast.GtE: lambda a, b: a >= b, ast.Lt: lambda a, b: a < b, ast.LtE: lambda a, b: a <= b, ast.Eq: lambda a, b: a == b,
       ast.NotEq: lambda a, b: a != b}


def py_bool(n, A):
    if isinstance(n, ast.BoolOp):
        parts = [py_bool(v, A) for v in n.values]
        return z3.And(*parts) if isinstance(n.op, ast.And) else z3.Or(*parts)
    if isinstance(n, ast.UnaryOp) and isinstance(n.op, ast.Not):
        return z3.Not(py_bool(n.operand, A))
    if isinstance(n, ast.Compare) and len(n.ops) == 1 and type(n.ops[0]) in CMP:
        l, r = py_int(n.left, A), py_int(n.comparators[0], A)
        if l is not None and r is not None:
            return CMP[type(n.ops[0])](l, r)
    if isinstance(n, ast.Attribute) and isinstance(n.value, ast.Name):
        if n.value.id == "project":
            return A.length(n.attr) > 0
        if n.value.id == "settings":
            return A.flag(n.attr)
    return A.fresh(ast.unparse(n))


def creation_conditions(A):
    """{out_page: (z3 condition, line)} for the list pages, read from Documentation.__init__ and the ListPage subclasses"""
    mod = loader.module_source("ford.output")[1]
    out_page = {}
    for c in mod.body:
        if isinstance(c, ast.ClassDef):
            for s in c.body:
                if isinstance(s, ast.Assign) and len(s.targets) == 1 and isinstance(s.targets[0], ast.Name) and s.targets[0].id == "out_page" and isinstance(s.value, ast.Constant):
                    out_page[c.name] = s.value.value
    fn = loader.find_def("ford.output", "Documentation.__init__")
    created = {}
    cls_node = next(c for c in mod.body if isinstance(c, ast.ClassDef) and c.name == "Documentation")
    helpers = {m.name: m for m in cls_node.body if isinstance(m, ast.FunctionDef) and m.name.startswith("_") and not m.name.startswith("__")}

    class _Subst(ast.NodeTransformer):
        def __init__(self, m):
            self.m = m

        def visit_Name(self, n):
            return ast.copy_location(ast.Name(id=self.m[n.id], ctx=n.ctx), n) if n.id in self.m else n

    def visit(stmts, cond, depth=0):
        for s in stmts:
            # a private method of Documentation called as a statement (`self._create_list_pages(settings, project)`) is followed, its parameters renamed to the arguments
            if isinstance(s, ast.Expr) and isinstance(s.value, ast.Call) and isinstance(s.value.func, ast.Attribute) and isinstance(s.value.func.value, ast.Name) \
                    and s.value.func.value.id == "self" and s.value.func.attr in helpers and depth < 3 and all(isinstance(a, ast.Name) for a in s.value.args) and not s.value.keywords:
                h = helpers[s.value.func.attr]
                params = [a.arg for a in h.args.args][1:]
                if len(params) == len(s.value.args):
                    import copy
                    m = {p: a.id for p, a in zip(params, s.value.args)}
                    visit([_Subst(m).visit(copy.deepcopy(x)) for x in h.body], cond, depth + 1)
                continue
            if isinstance(s, ast.If):
                t = py_bool(s.test, A)
                visit(s.body, cond + [t], depth)
                visit(s.orelse, cond + [z3.Not(t)], depth)
            elif isinstance(s, (ast.Try, ast.With, ast.For)):
                visit(s.body, cond, depth)        # a For body may run zero times: only list pages appended outside loops are recognised below
            elif isinstance(s, ast.Expr) and isinstance(s.value, ast.Call) and ast.unparse(s.value.func) == "self.lists.append" and s.value.args \
                    and isinstance(s.value.args[0], ast.Call) and isinstance(s.value.args[0].func, ast.Name):
                cls = s.value.args[0].func.id
                if cls in out_page:
                    c = z3.And(*cond) if cond else z3.BoolVal(True)
                    page = out_page[cls]
                    created[page] = (z3.Or(created[page][0], c) if page in created else c, s.lineno)
    visit(fn.body, [])
    return created


# ---------------------------------------------------------------- template side
_SETS = {}      # `{% set x = <expr> %}` names of the template being read that are set exactly once: they stand for their expression


def j_int(n, A):
    import jinja2.nodes as N
    if isinstance(n, N.Name) and n.name in _SETS:
        return j_int(_SETS[n.name], A)
    if isinstance(n, N.Const) and isinstance(n.value, int) and not isinstance(n.value, bool):
        return z3.IntVal(n.value)
    if isinstance(n, N.Filter) and n.name in ("length", "count") and isinstance(n.node, N.Getattr) and isinstance(n.node.node, N.Name) and n.node.node.name == "project":
        return A.length(n.node.attr)
    if isinstance(n, (N.Add, N.Sub)):
        l, r = j_int(n.left, A), j_int(n.right, A)
        if l is not None and r is not None:
            return l + r if isinstance(n, N.Add) else l - r
    return None


JCMP = {"eq": lambda a, b: a == b, "ne": lambda a, b: a != b, "gt": lambda a, b: a > b, "gteq": lambda a, b: a >= b, "lt": lambda a, b: a < b, "lteq": lambda a, b: a <= b}
SETTINGS_GLOBALS = ("incl_src", "search", "graph")


def j_bool(n, A, tests):
    import jinja2.nodes as N
    if isinstance(n, N.Name) and n.name in _SETS:
        return j_bool(_SETS[n.name], A, tests)
    if isinstance(n, N.And):
        return z3.And(j_bool(n.left, A, tests), j_bool(n.right, A, tests))
    if isinstance(n, N.Or):
        return z3.Or(j_bool(n.left, A, tests), j_bool(n.right, A, tests))
    if isinstance(n, N.Not):
        return z3.Not(j_bool(n.node, A, tests))
    if isinstance(n, N.Test) and n.name in tests and not n.args:
        v = j_int(n.node, A)
        if v is not None:
            return tests[n.name](v)
    if isinstance(n, N.Compare) and len(n.ops) == 1 and n.ops[0].op in JCMP:
        l, r = j_int(n.expr, A), j_int(n.ops[0].expr, A)
        if l is not None and r is not None:
            return JCMP[n.ops[0].op](l, r)
    if isinstance(n, N.Getattr) and isinstance(n.node, N.Name) and n.node.name == "project" and n.attr in LISTS:
        return A.length(n.attr) > 0
    if isinstance(n, N.Name) and n.name in SETTINGS_GLOBALS:
        return A.flag(n.name)
    return A.fresh(type(n).__name__)


def custom_tests():
    """jinja tests registered in ford/output.py whose body is `return <arg> <op> <int>`: read from the AST"""
    mod = loader.module_source("ford.output")[1]
    fns = {f.name: f for f in mod.body if isinstance(f, ast.FunctionDef)}
    tests = {}
    for s in mod.body:
        if isinstance(s, ast.Assign) and len(s.targets) == 1 and isinstance(s.targets[0], ast.Subscript) and ast.unparse(s.targets[0].value) == "env.tests" \
                and isinstance(s.value, ast.Name) and s.value.id in fns:
            f = fns[s.value.id]
            if len(f.body) == 1 and isinstance(f.body[0], ast.Return) and isinstance(f.body[0].value, ast.Compare) and len(f.args.args) == 1:
                cmp = f.body[0].value
                if isinstance(cmp.left, ast.Name) and cmp.left.id == f.args.args[0].arg and len(cmp.ops) == 1 and type(cmp.ops[0]) in CMP \
                        and isinstance(cmp.comparators[0], ast.Constant) and isinstance(cmp.comparators[0].value, int):
                    k, op = cmp.comparators[0].value, CMP[type(cmp.ops[0])]
                    tests[s.targets[0].slice.value] = (lambda op, k: lambda v: op(v, k))(op, k)
    return tests


def template_links(A, tests, pattern=re.compile(r"lists/([A-Za-z_]+\.html)")):
    """[(template, line, page, [path condition])] for every literal link to a list page"""
    import jinja2, jinja2.nodes as N
    env = jinja2.Environment()
    out = []
    tdir = os.path.join(os.path.dirname(loader.module_path("ford.output")), "templates")
    for name in sorted(os.listdir(tdir)):
        if not name.endswith(".html"):
            continue
        tree = env.parse(open(os.path.join(tdir, name), encoding="utf-8").read())
        assigned = [a for a in tree.find_all(N.Assign) if isinstance(a.target, N.Name)]
        _SETS.clear()
        _SETS.update({a.target.name: a.node for a in assigned if sum(1 for b in assigned if b.target.name == a.target.name) == 1 and a.target.name not in {x.name for x in a.node.find_all(N.Name)}})

        def visit(node, cond):
            if isinstance(node, N.If):
                t = j_bool(node.test, A, tests)
                for b in node.body:
                    visit(b, cond + [t])
                neg = [z3.Not(t)]
                for e in node.elif_:
                    te = j_bool(e.test, A, tests)
                    for b in e.body:
                        visit(b, cond + neg + [te])
                    neg.append(z3.Not(te))
                for b in node.else_:
                    visit(b, cond + neg)
                return
            if isinstance(node, N.TemplateData):
                for m in pattern.finditer(node.data):
                    line = node.lineno + node.data.count("\n", 0, m.start())
                    out.append((name, line, m.group(1), list(cond)))
            for c in node.iter_child_nodes():
                visit(c, cond)
        visit(tree, [])
    return out


def main_guard_present():
    """`if len(project.files) < 1: ... sys.exit(..)` in ford.main: a project that reaches the templates has at least one Fortran source file"""
    src = open(os.path.join(os.path.dirname(loader.module_path("ford.output")), "__init__.py"), encoding="utf-8").read()
    for n in ast.walk(ast.parse(src)):
        if isinstance(n, ast.If) and ast.unparse(n.test).replace(" ", "") in ("len(project.files)<1", "len(project.files)==0", "notproject.files"):
            if any(isinstance(x, ast.Call) and ast.unparse(x.func) in ("sys.exit", "exit") for b in n.body for x in ast.walk(b)):
                return True
    return False


def shape_of(model, A):
    return {k: model.eval(v, model_completion=True).as_long() for k, v in A.len.items()} | {k: bool(model.eval(v, model_completion=True)) for k, v in A.flags.items()}


def obligations(prop="C09", replay=None, missing_replay=None):
    A = Atoms()
    out = []
    t0 = time.time()
    tests = custom_tests()
    created = creation_conditions(A)
    links = template_links(A, tests)
    guard_ok = main_guard_present()
    out.append(OR(id=f"{prop}.S.main.at_least_one_source_file", status=PROVED if guard_ok else REFUTED, kind="S", target="ford.main", backend="ast",
                  desc="ford.main stops before any page is rendered when the project has no Fortran source file (the templates index project.files[0])",
                  role="pre", witness=None if guard_ok else {"missing": "if len(project.files) < 1: sys.exit(1)"}))
    out.append(OR(id=f"{prop}.G.navlinks.nonvacuous", status=PROVED if len(links) >= 8 and len(created) >= 6 else ERROR, kind="G", role="guard", target="ford/templates/*.html",
                  desc=f"{len(links)} literal links to list pages found in the templates, {len(created)} list pages created in Documentation.__init__", backend="ast"))
    for tname, line, page, cond in links:
        oid = f"{prop}.S.templates.{tname}.{page.split('.')[0]}.L{len([1 for o in out if f'.{tname}.{page.split(chr(46))[0]}.' in o.id])}"
        r = OR(id=oid, kind="S", target=f"ford/templates/{tname} -> lists/{page}", role="post", backend="jinja2-ast+ast+z3", status=UNKNOWN,
               desc=f"the guard of the link to lists/{page} (line {line}) implies the condition under which Documentation.__init__ creates that page")
        if page not in created:
            # the statement that creates the page was not found where this obligation looks for it (Documentation.__init__ and the private methods it calls): undecided,
            # unless the whole-site stand-in (every link of every page resolves) finds the dangling link
            r.witness = {"page": page, "problem": "no statement of Documentation.__init__ (or of a private method it calls) creates this list page"}
            from contracts import astform
            out.append(astform.decide(r, False, missing_replay))
            continue
        s = z3.Solver()
        s.set("timeout", 20000)
        s.add(*A.axioms())
        if guard_ok:
            s.add(A.length("files") >= 1)
        # the template global incl_src is the setting (Documentation passes asdict(settings) to every template)
        for f in SETTINGS_GLOBALS:
            if f in A.flags:
                pass
        s.add(*cond)
        s.add(z3.Not(created[page][0]))
        t1 = time.time()
        res = s.check()
        r.seconds = time.time() - t1
        if res == z3.unsat:
            r.status = PROVED
        elif res == z3.sat:
            shape = shape_of(s.model(), A)
            r.status, r.witness = REFUTED, {"project_shape": shape, "template": tname, "line": line, "page": f"lists/{page}"}
            if replay is not None:
                try:
                    r.replay = replay(shape, page)
                except Exception as ex:
                    r.replay = {"confirmed": False, "error": f"{type(ex).__name__}: {ex}"}
                if not (isinstance(r.replay, dict) and r.replay.get("confirmed")):
                    # the counter-model is one of the abstraction (list lengths, flags, uninterpreted atoms for what the translation does not read); no generated
                    # project reproduces it on the real code: undecided (DESIGN 4.2), not a violation
                    r.status, r.detail, r.replay = UNKNOWN, f"counter-model {shape} not reproduced by a real run", None
        else:
            r.detail = s.reason_unknown()
        out.append(r)
    return out

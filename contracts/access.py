"""Engine A / structural contracts for accessibility (C04)."""
from __future__ import annotations
import ast
import z3
from pyvc.contract import *
from pyvc.values import *
from harness.core import OR, PROVED, REFUTED, UNKNOWN
from harness import loader
from contracts.heapmodel import FIELDS, class_model
from contracts.display import H, sel, lst, base

I, S = z3.IntSort(), z3.StringSort()


def _is_iface_proc(v, o):
    cm = class_model()
    par = sel(H(v, "parent"), o)
    return z3.And(par != 0, cm.is_a(par, "FortranInterface"), z3.Not(sel(H(v, "generic"), par)))


def is_interface_procedure(prop="C04"):
    c = base(Contract("ford.sourceform", "FortranProcedure.is_interface_procedure", prop))
    c.param("self", TRef("FortranProcedure"))
    c.ensures("iff_parent_is_a_non_generic_interface", lambda v0, res, v1: res.t == _is_iface_proc(v0, v0.self))
    c.no_raise = True
    return c


def permission_getter(prop="C04"):
    c = base(Contract("ford.sourceform", "FortranProcedure.permission", prop))
    c.param("self", TRef("FortranProcedure"))
    c.props["is_interface_procedure"] = lambda eng, path, obj: SBool(_is_iface_proc(V(eng, path), obj.t))
    c.requires("parent_of_interface_procedure_is_not_a_procedure", lambda v: z3.Implies(_is_iface_proc(v, v.self), sel(H(v, "parent"), v.self) != v.self))
    c.ensures("interface_procedures_take_the_interfaces_permission_others_their_own",
              lambda v0, res, v1: res.t == z3.If(_is_iface_proc(v0, v0.self), sel(H(v0, "permission"), sel(H(v0, "parent"), v0.self)), sel(H(v0, "_permission"), v0.self)))
    c.no_raise = True
    return c


# child constructors called from FortranContainer.__init__ and the permission argument each must receive (position 3, 0-based)
EXPECTED_PERMISSION_ARG = {
    "FortranSubroutine": "self.permission", "FortranFunction": "self.permission", "FortranType": "self.permission", "FortranInterface": "self.permission",
    "FortranEnum": "self.permission", "FortranNamelist": "self.permission", "FortranModuleProcedureImplementation": "self.permission",
    "FortranBoundProcedure": "child_permission", "FortranCommon": "'public'",
}


def constructor_call_sites(prop="C04"):
    """call-site obligations: every child entity is constructed with the accessibility tracked for its kind (the scope's own for entities,
    the separately tracked `child_permission` for components / bindings)"""
    fn = loader.find_def("ford.sourceform", "FortranContainer.__init__")
    out = []
    counts = {}
    for n in ast.walk(fn):
        if isinstance(n, ast.Call) and isinstance(n.func, ast.Name):
            name = n.func.id
            if name in EXPECTED_PERMISSION_ARG and len(n.args) >= 4:
                k = counts.get(name, 0)
                counts[name] = k + 1
                got = ast.unparse(n.args[3])
                ok = got == EXPECTED_PERMISSION_ARG[name]
                r = OR(id=f"{prop}.S.__init__.{name}.site{k}.permission_argument", status=PROVED if ok else REFUTED, kind="S", role="pre", backend="ast",
                       target="ford.sourceform.FortranContainer.__init__",
                       desc=f"{name}(...) receives `{EXPECTED_PERMISSION_ARG[name]}` as inherited permission (got `{got}`)")
                if not ok:
                    r.witness = {"call": ast.unparse(n)[:200]}
                    from bounded import c04
                    r.replay = c04.search()
                out.append(r)
            if name == "line_to_variables" and len(n.args) >= 3:
                got = ast.unparse(n.args[2])
                ok = got == "child_permission"
                r = OR(id=f"{prop}.S.__init__.line_to_variables.permission_argument", status=PROVED if ok else REFUTED, kind="S", role="pre", backend="ast",
                       target="ford.sourceform.FortranContainer.__init__", desc=f"line_to_variables(...) receives `child_permission` (got `{got}`)")
                if not ok:
                    from bounded import c04
                    r.replay = c04.search()
                out.append(r)
    missing = [k for k in EXPECTED_PERMISSION_ARG if k not in counts]
    if missing:
        out.append(OR(id=f"{prop}.S.__init__.constructors.anchor", status=UNKNOWN, kind="S", target="ford.sourceform.FortranContainer.__init__",
                      detail=f"constructor call sites not found for {missing}"))
    return out


def initial_default(prop="C04"):
    """FortranContainer.__init__, before the statement loop: the accessibility handed to the declarations of a scope (`child_permission`) starts as the scope's own
    default, and for a submodule that default is "private" (nothing in a submodule is accessible by use association).  So the statement that makes a submodule private
    has to come before `child_permission` is computed from `self.permission`."""
    fn = loader.find_def("ford.sourceform", "FortranContainer.__init__")
    oid = f"{prop}.S.__init__.submodule_default_reaches_the_declarations"
    idx_sub = next((i for i, st in enumerate(fn.body) if isinstance(st, ast.If) and "FortranSubmodule" in ast.unparse(st.test)
                    and any(ast.unparse(b).replace('"', "'") == "self.permission = 'private'" for b in st.body)), None)
    idx_child = next((i for i, st in enumerate(fn.body) if isinstance(st, ast.Assign) and any(ast.unparse(t) == "child_permission" for t in st.targets)), None)
    if idx_sub is None or idx_child is None:
        return [OR(id=oid, status=UNKNOWN, kind="S", target="ford.sourceform.FortranContainer.__init__",
                   detail=f"submodule statement / child_permission initialisation not found at the top level of __init__ ({idx_sub}, {idx_child})")]
    init = ast.unparse(fn.body[idx_child].value)
    ok = idx_sub < idx_child and "self.permission" in init
    r = OR(id=oid, status=PROVED if ok else REFUTED, kind="S", role="pre", backend="ast", target="ford.sourceform.FortranContainer.__init__",
           desc=f"`child_permission = {init[:70]}` is computed after a submodule has been made private")
    if not ok:
        from bounded import c04
        r.detail = "child_permission is initialised from the inherited accessibility before the submodule default is applied: variables of a submodule are recorded as public"
        r.replay = c04.submodule_cases()
    return [r]


# ------------------------------------------------------------------ default-accessibility tracking in FortranContainer.__init__
def _tracking_block(fn):
    """the first two branches (CONTAINS, bare access statement) of the dispatch chain, cut off from the rest of the chain"""
    import copy
    loops = [n for n in fn.body if isinstance(n, ast.For) and ast.unparse(n.iter) == "source"]
    if len(loops) != 1:
        raise loader.TargetMissing("`for line in source` loop")
    chain = [st for st in loops[0].body if isinstance(st, ast.If) and "line_lower == 'contains'" in ast.unparse(st.test)]
    if len(chain) != 1:
        raise loader.TargetMissing("cascade head")
    first = chain[0]
    second = first.orelse[0] if len(first.orelse) == 1 and isinstance(first.orelse[0], ast.If) else None
    if second is None or "line_lower in ['public', 'private', 'protected']" not in ast.unparse(second.test):
        raise loader.TargetMissing("bare access-statement branch is not the second branch of the cascade")
    s2 = ast.If(test=second.test, body=second.body, orelse=[])
    s1 = ast.If(test=first.test, body=first.body, orelse=[s2])
    for n in (s1, s2):
        ast.copy_location(n, first)
    return [s1]


def access_tracking(prop="C04"):
    c = base(Contract("ford.sourceform", "FortranContainer.__init__", prop))
    c.qual_suffix = "access_tracking"
    c.block_select = _tracking_block
    c.dropped.append("block contract: only the CONTAINS branch and the bare PUBLIC/PRIVATE/PROTECTED branch of the dispatch chain (the state that tracks default accessibility)")
    cm = class_model()
    c.param("self", TRef("FortranContainer"))
    c.param("line_lower", TStr())
    c.param("line", TStr())
    c.param("incontains", TBool())
    c.param("child_permission", TStr())
    c.local("child_permission", TStr())
    c.globals["_can_have_contains"] = SConst(("FortranModule", "FortranProgram", "FortranProcedure", "FortranType", "FortranSubmodule", "FortranModuleProcedureImplementation"))
    c.methods["print_error"] = lambda eng, path, e, args, recv: SNone()
    c.assumed.append("print_error(...) either returns or raises; it does not touch accessibility state")
    is_type = lambda v: cm.is_a(v.self, "FortranType")
    chc = lambda v: z3.Or(*[cm.is_a(v.self, k) for k in ("FortranModule", "FortranProgram", "FortranProcedure", "FortranType", "FortranSubmodule", "FortranModuleProcedureImplementation")])
    perm = lambda v: sel(H(v, "permission"), v.self)
    acc = lambda v: z3.Or(*[v.line_lower == z3.StringVal(w) for w in ("public", "private", "protected")])
    isc = lambda v: v.line_lower == z3.StringVal("contains")
    # isinstance against the tuple `_can_have_contains`
    orig = c.isinstance_term

    def post(v0, res, v1):
        return z3.And(
            # a bare access statement sets the default for what follows; for a type it is the component/binding default, the type's own accessibility is untouched
            z3.Implies(acc(v0), z3.And(v1.child_permission == v0.line_lower, perm(v1) == z3.If(is_type(v0), perm(v0), v0.line_lower), v1.incontains == v0.incontains)),
            # CONTAINS in a type starts the binding part: the binding default is public again (tracked separately from the component default)
            z3.Implies(z3.And(isc(v0), z3.Not(v0.incontains), chc(v0)),
                       z3.And(v1.incontains, perm(v1) == perm(v0), v1.child_permission == z3.If(is_type(v0), z3.StringVal("public"), v0.child_permission))),
            z3.Implies(z3.And(z3.Not(acc(v0)), z3.Not(isc(v0))), z3.And(v1.child_permission == v0.child_permission, perm(v1) == perm(v0), v1.incontains == v0.incontains)),
            # outside types the children's default is the unit's own accessibility, at every statement
            z3.Implies(z3.And(z3.Not(is_type(v0)), v0.child_permission == perm(v0)), v1.child_permission == perm(v1)))
    c.ensures("default_accessibility_state_machine", post)
    c.ensures("frame_other_entities", lambda v0, res, v1: z3.BoolVal(True))
    return c


# ------------------------------------------------------------------ process_attribs: one entity, its recorded attribute statements
SI = z3.SeqSort(I)
LASTACC = z3.Function("LASTACC", SI, I, S, S)           # last access attribute among attrs[0:k], else the initial permission
OTHERS = z3.Function("OTHER_ATTRS", SI, I, z3.BoolSort(), SI)   # attrs[0:k] without access attributes (and without bind(...) when the entity takes a bind name)
ACCESS = ("public", "private", "protected")


def _is_acc(t):
    return z3.Or(*[t == z3.StringVal(w) for w in ACCESS])


def _pa_unfold(seq, k, p0, takes_bind):
    a = STR_OF(seq[k])
    isbind = z3.SubString(a, 0, 4) == z3.StringVal("bind")
    keep = z3.And(z3.Not(_is_acc(a)), z3.Not(z3.And(isbind, takes_bind)))
    return [LASTACC(seq, 0, p0) == p0, OTHERS(seq, 0, takes_bind) == z3.Empty(SI),
            LASTACC(seq, k + 1, p0) == z3.If(_is_acc(a), a, LASTACC(seq, k, p0)),
            OTHERS(seq, k + 1, takes_bind) == z3.If(keep, z3.Concat(OTHERS(seq, k, takes_bind), z3.Unit(seq[k])), OTHERS(seq, k, takes_bind))]


def process_attribs_item(prop="C04"):
    from pyvc.blocks import between
    c = base(Contract("ford.sourceform", "FortranCodeUnit.process_attribs", prop))
    c.qual_suffix = "item_block"
    c.block_select = between("for attr in self.attr_dict[item.name.lower()]", None, container="for item in self.iterator('functions', 'subroutines', 'types', 'interfaces', 'absinterfaces')")
    c.dropped.append("block contract: the body of the first loop of process_attribs (one entity `item` and the attribute statements recorded for its name)")
    c.fields["attr_dict"] = "ddict:str:list"
    c.fields["bindC"] = "str"
    c.hints["dict_list_elem"] = "str"
    c.param("self", TRef("FortranCodeUnit"))
    c.param("item", TRef("FortranBase"))
    # the block's third input is the function's list of handled names - whatever the code calls it: the list that `item.name.lower()` is appended to in the block
    import ast as _ast
    try:
        _fn = loader.find_def("ford.sourceform", "FortranCodeUnit.process_attribs")
        NM = next((n.func.value.id for n in _ast.walk(_fn) if isinstance(n, _ast.Call) and isinstance(n.func, _ast.Attribute) and n.func.attr == "append"
                   and isinstance(n.func.value, _ast.Name) and n.args and _ast.unparse(n.args[0]) == "item.name.lower()"), "named")
    except Exception:
        NM = "named"
    c.param(NM, TList("str"))
    named = lambda v: getattr(v, NM)
    E = lambda v: V(v._e, v._e.entry)

    def setup(eng, path):
        for f in ("permission", "attribs", "bindC", "procedure", "attr_dict", "name"):
            eng.field_array(path, f)
        path.heap._dmap(SDict(0, "str", "list"))
        path.heap._lmap("str")
    c.extra_setup.append(setup)
    key = lambda v: LOWER(sel(H(v, "name"), v.item))
    adict = lambda v: SDict(sel(H(v, "attr_dict"), v.self), "str", "list")

    def attrs0(e):
        d = adict(e)
        present = z3.Select(e.heap.dict_has(d), key(e))
        return z3.If(present, e.heap.list_get(SList(z3.Select(e.heap.dict_val(d), key(e)), "str")), z3.Empty(SI))
    has_bindc = lambda e: z3.Select(e._e.has_array(e._p, "bindC"), e.item)
    proc_of = lambda e: z3.If(z3.Select(e._e.has_array(e._p, "procedure"), e.item), sel(H(e, "procedure"), e.item), 0)
    takes_bind = lambda e: z3.Or(has_bindc(e), proc_of(e) != 0)
    perm0 = lambda e: sel(H(e, "permission"), e.item)
    # the other attributes go to the procedure of an interface body (it is what gets matched with a dummy argument later), else to the entity itself
    owner = lambda e: z3.If(proc_of(e) != 0, proc_of(e), e.item)

    def req(v):
        a0 = v.heap.alloc0
        d = adict(v)
        lid = z3.Select(v.heap.dict_val(d), key(v))
        at = sel(H(v, "attribs"), owner(v))
        nid = v.val(NM).id
        return z3.And(v.item != v.self, at > 0, at < a0, nid != at, z3.Implies(z3.Select(v.heap.dict_has(d), key(v)), z3.And(lid > 0, lid < a0, lid != at, lid != nid)),
                      sel(H(v, "attr_dict"), v.self) > 0, proc_of(v) != v.item)
    c.requires("shape", req)
    c.loop(0, invariants=[
        ("permission_is_last_access_attribute_so_far", lambda v: H(v, "permission") == z3.Store(H(E(v), "permission"), E(v).item, LASTACC(v.it.seq, v.k, perm0(E(v))))),
        ("attribs_grow_by_the_other_attributes", lambda v: lst(v, "attribs", owner(E(v)), "str") == z3.Concat(lst(E(v), "attribs", owner(E(v)), "str"), OTHERS(v.it.seq, v.k, takes_bind(E(v))))),
        ("recorded_statements_untouched", lambda v: z3.Implies(z3.Select(E(v).heap.dict_has(adict(E(v))), key(E(v))),
                                                               z3.And(z3.Select(v.heap.dict_has(adict(E(v))), key(E(v))),
                                                                      z3.Select(v.heap.dict_val(adict(E(v))), key(E(v))) == z3.Select(E(v).heap.dict_val(adict(E(v))), key(E(v))),
                                                                      v.heap.list_get(SList(z3.Select(E(v).heap.dict_val(adict(E(v))), key(E(v))), "str")) == attrs0(E(v))))),
        ("frame", lambda v: z3.And(v.it.seq == attrs0(E(v)), named(v) == named(E(v)), H(v, "attribs") == H(E(v), "attribs"), H(v, "procedure") == H(E(v), "procedure"), H(v, "name") == H(E(v), "name"),
                                   H(v, "attr_dict") == H(E(v), "attr_dict"), z3.Select(v._e.has_array(v._p, "bindC"), E(v).item) == z3.Select(E(v)._e.has_array(E(v)._p, "bindC"), E(v).item))),
    ], unfold=lambda v: _pa_unfold(v.it.seq, v.k, perm0(E(v)), takes_bind(E(v))), variant=lambda v: z3.Length(v.it.seq) - v.k)
    c.post_facts = lambda v0: [LASTACC(attrs0(v0), 0, perm0(v0)) == perm0(v0), OTHERS(attrs0(v0), 0, takes_bind(v0)) == z3.Empty(SI)]

    def post(v0, res, v1):
        a = attrs0(v0)
        n = z3.Length(a)
        return z3.And(H(v1, "permission") == z3.Store(H(v0, "permission"), v0.item, LASTACC(a, n, perm0(v0))),     # this entity: last access statement wins; nobody else changes
                      lst(v1, "attribs", owner(v0), "str") == z3.Concat(lst(v0, "attribs", owner(v0), "str"), OTHERS(a, n, takes_bind(v0))))
    c.ensures("permission_is_the_last_access_statement_naming_the_entity_else_unchanged", post)
    # an identifier can stand for several entities of the scope (a type and its constructor, a generic and a specific procedure, a generic declared in two blocks): what is
    # recorded for the name stays available to the next entity of that name; the name is noted for removal after the loop
    def kept(v0, res, v1):
        d0, d1 = adict(v0), adict(v1)
        n0, n1 = named(v0), named(v1)
        present = z3.Select(v0.heap.dict_has(d0), key(v0))
        return z3.And(z3.Implies(present, z3.And(z3.Select(v1.heap.dict_has(d1), key(v0)),
                                                 v1.heap.list_get(SList(z3.Select(v1.heap.dict_val(d1), key(v0)), "str")) == attrs0(v0))),
                      z3.Length(n1) == z3.Length(n0) + 1, z3.SubSeq(n1, 0, z3.Length(n0)) == n0, STR_OF(n1[z3.Length(n0)]) == key(v0))
    c.ensures("recorded_statements_stay_for_other_entities_of_the_name_and_the_name_is_noted_for_removal", kept)
    c.no_raise = True
    return c


# ------------------------------------------------------------------ a type's constructor (generic interface of the same name) shares the type's accessibility
def constructor_block(prop="C04"):
    """FortranType.correlate, `# Find a constructor` statement: a type and the generic interface of the same name are one identifier in Fortran, so an access
    statement or attribute for the name applies to both; FORD applies it to the type (process_attribs) and copies it to the interface here."""
    from pyvc.blocks import between
    c = base(Contract("ford.sourceform", "FortranType.correlate", prop))
    c.qual_suffix = "constructor"
    c.block_select = between("if self.name.lower() in self.all_procs", "self.sort_components()")
    c.dropped.append("block contract: the statement `if self.name.lower() in self.all_procs: ...` of FortranType.correlate")
    c.fields.update({"name": "str", "all_procs": "dict:str:ref", "constructor": "ref", "permission": "str", "num_lines": "int", "num_lines_all": "int"})
    c.param("self", TRef("FortranType"))
    c.param("project", TOpaque("project"))
    tab = lambda v: SDict(sel(H(v, "all_procs"), v.self), "str", "ref")
    key = lambda v: LOWER(sel(H(v, "name"), v.self))
    has = lambda v: z3.Select(v.heap.dict_has(tab(v)), key(v))
    proc = lambda v: z3.Select(v.heap.dict_val(tab(v)), key(v))
    c.requires("table_entries_are_objects_other_than_the_type", lambda v: z3.Implies(has(v), z3.And(proc(v) > 0, proc(v) != v.self)))

    def post(v0, res, v1):
        p = proc(v0)
        return z3.If(has(v0),
                     z3.And(sel(H(v1, "constructor"), v0.self) == p, sel(H(v1, "permission"), p) == sel(H(v0, "permission"), v0.self),
                            sel(H(v1, "permission"), v0.self) == sel(H(v0, "permission"), v0.self)),
                     z3.And(sel(H(v1, "constructor"), v0.self) == sel(H(v0, "constructor"), v0.self), H(v1, "permission") == H(v0, "permission")))
    c.ensures("the_same_named_generic_interface_becomes_the_constructor_and_takes_the_accessibility_of_the_type", post)
    c.no_raise = True
    return c


def correlate_keeps_accessibility(prop="C04", replay=None):
    """accessibility is settled when a scope has been parsed (process_attribs): FortranCodeUnit.correlate, which pairs the implementation of a separate module procedure with its
    interface and copies attributes between them, assigns no `permission`.  (An implementation lives in its submodule, whose entities are private; the interface in the ancestor
    module carries the accessibility of the name.)"""
    fn = loader.find_def("ford.sourceform", "FortranCodeUnit.correlate")
    bad = [(n.lineno, ast.unparse(n)[:80]) for n in ast.walk(fn) if isinstance(n, (ast.Assign, ast.AugAssign, ast.AnnAssign))
           for t in (n.targets if isinstance(n, ast.Assign) else [n.target]) if isinstance(t, ast.Attribute) and t.attr in ("permission", "_permission")]
    r = OR(id=f"{prop}.S.FortranCodeUnit.correlate.assigns_no_accessibility", status=REFUTED if bad else PROVED, kind="S", role="frame", backend="ast", target="ford.sourceform.FortranCodeUnit.correlate",
           desc="no statement of FortranCodeUnit.correlate (helpers included) assigns `permission`: cross-referencing does not change what the declarations and access statements said")
    if bad:
        r.witness = {"sites": bad}
        r.detail = f"line {bad[0][0]}: `{bad[0][1]}` changes an entity's accessibility during correlation"
        if replay:
            r.replay = replay()
    return [r]

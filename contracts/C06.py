"""C06 - USE association imports exactly the accessible names.  DESIGN.md section 6, C06."""
from __future__ import annotations
import time
from harness.core import Task, OR, PROVED, REFUTED
from contracts import useassoc, rx_use
from contracts.common import *

PROP = "C06"
KINDS = ["pub_procs", "pub_absints", "pub_types", "pub_vars"]


def _mk(kind):
    def mk():
        from bounded import c06
        c = useassoc.used_objects(kind, PROP)
        c.search_fn = c06.search
        return c
    mk.__name__ = f"used_objects[{kind}]"
    return mk


def bounded_task():
    def run():
        from bounded import c06
        t0 = time.time()
        hit = c06.search()
        r = OR(id=f"{PROP}.Bd.pipeline.use_forms", status=REFUTED if hit else PROVED, kind="Bd", role="bounded",
               target="ford.fortran_project.Project.correlate (real pipeline)",
               desc="modules a <- b <- c: every USE form x b's default access x public list, against an independent implementation of the standard's rules "
                    "(parse half of get_used_entities and the re-export filter included)",
               bound=f"{c06.count_cases()} generated three-module projects", cases=c06.count_cases(), seconds=time.time() - t0, backend="enumeration")
        if hit:
            r.replay, r.witness = hit, hit["input"]
        kc = c06.known_case()
        k = OR(id=f"{PROP}.Bd.pipeline.two_local_names_for_one_entity", status=REFUTED if kc else PROVED, kind="Bd", role="bounded", target="ford.sourceform.FortranModule.get_used_entities (parse half)",
               desc="use a, only: p => t, q => t : both local names denote a's t", bound="1 case", cases=1, backend="enumeration")
        if kc:
            k.replay, k.witness = kc, kc["input"]
        return [r, k]
    return Task(f"{PROP}.Bd.pipeline", PROP, "real pipeline", run)


def _get_deps():
    from bounded import c06
    from contracts import deps
    c = deps.get_deps(PROP)
    c.search_fn = c06.search
    return c


_get_deps.__name__ = "get_deps"


def build(tier, seed):
    set_tier(tier)
    tasks = [a_task(PROP, _mk(k)) for k in KINDS]
    tasks.append(standin_task(PROP, "parser.access_product", lambda: __import__("bounded.c04", fromlist=["x"]).search(), "ford.sourceform (real parser)",
                          "what a module makes accessible follows its access statements (every entity of a name; protected variables are accessible): the names a USE statement can import", "access product of C04"))
    tasks.append(a_task(PROP, _get_deps))
    tasks.append(Task(f"{PROP}.S.deplist", PROP, "Project.correlate deplist", lambda: __import__("contracts.deps", fromlist=["x"]).deplist_obligations(PROP, lambda: __import__("bounded.c06", fromlist=["x"]).search())))
    tasks.append(Task(f"{PROP}.S.find_used_modules", PROP, "find_used_modules", lambda: __import__("contracts.external", fromlist=["x"]).find_used_modules_recursion(PROP, lambda: __import__("bounded.c07", fromlist=["x"]).search())))
    tasks.append(Task(f"{PROP}.S.find_used_modules.lookup", PROP, "find_used_modules", lambda: __import__("contracts.external", fromlist=["x"]).find_used_modules_lookup(PROP, lambda: __import__("bounded.c06", fromlist=["x"]).search())))
    def _ext():
        from bounded import c16
        t0 = time.time()
        hit = c16.search(("end_to_end",))
        r = OR(id=f"{PROP}.Bd.projects.names_re_exported_by_an_external_module", status=REFUTED if hit else PROVED, kind="Bd", role="bounded", target="ford.external_project (export + import, whole runs)",
               desc="project A exports a module that re-exports two entities under new names; project B, built against A's modules.json, uses them by those names: B's pages link to A's entities",
               bound="1 project pair", cases=1, seconds=time.time() - t0, backend="enumeration")
        if hit:
            r.replay, r.witness = hit, hit["input"]
        return [r]
    tasks.append(Task(f"{PROP}.Bd.external", PROP, "external project pair", _ext))
    tasks.append(Task(f"{PROP}.S.own_tables", PROP, "FortranCodeUnit.correlate", lambda: useassoc.own_tables_obligations(PROP, lambda: __import__("bounded.c07", fromlist=["x"]).search())))
    tasks.append(Task(f"{PROP}.S.filter_public", PROP, "FortranCodeUnit.correlate", lambda: useassoc.filter_public_obligation(PROP, lambda: __import__("bounded.c06", fromlist=["x"]).search())))
    tasks.append(Task(f"{PROP}.S.use_loop", PROP, "FortranCodeUnit.correlate", lambda: useassoc.use_loop_obligations(PROP, lambda: __import__("bounded.c06", fromlist=["x"]).search())))
    tasks.append(Task(f"{PROP}.S.casefold.tables", PROP, "stores into the name tables", lambda: __import__("contracts.casefold", fromlist=["x"]).table_store_obligations(PROP, replay=lambda: __import__("bounded.c06", fromlist=["x"]).search())))
    tasks.append(Task(f"{PROP}.B.use_patterns", PROP, "USE_RE/ONLY_RE/RENAME_RE", lambda: rx_use.obligations(PROP)))
    tasks.append(bounded_task())
    meta = {
        "trusted_base": TRUSTED_BASE,
        "assumptions": PYVC_ASSUMPTIONS + REVC_ASSUMPTIONS + [
            "parse/decide split: the clause text -> (only, used_names) half of get_used_entities is not proved (ONLY_RE.sub, split(','), RENAME_RE.search); "
            "Engine B covers its patterns, the bounded pipeline run covers its composition",
            "dict iteration visits every key exactly once (Python semantics); the result is stated as the oracle's fold over the iteration sequence",
            "oracle (standard's rule per exported name): with ONLY, imported iff listed, under the local name; without ONLY, imported under the local "
            "name if renamed and otherwise under its own name (and not under the remote name when renamed)",
        ],
        "functions_under_contract": fn_meta([("ford.sourceform", "FortranModule.get_used_entities.used_objects",
                                              "closure verified as a function of its free variables (self, used_names); one instance per export table"),
                                             ("ford.fortran_project", "Project.correlate.get_deps", "nested function; the recursive call is the callee whose contract is this function's own postcondition")]) +
        [{"constant": "FortranContainer.USE_RE"}, {"constant": "FortranModule.ONLY_RE"}, {"constant": "FortranModule.RENAME_RE"}],
        "unverified_surroundings": ["FortranModule._cleanup (export tables)", "re-export block of FortranCodeUnit.correlate (filter_public)",
                                    "module ordering: toposort_flatten over the dependency lists (library contract); that filter_modules keeps exactly the FortranModule objects", "find_used_modules"],
        "explanation": "Decide half of get_used_entities proved for every export table, clause and rename map; USE patterns cover every USE form; the dependency "
                       "list that orders the correlation of modules holds the uses of a unit and of everything nested in it at any depth (get_deps against its recursive specification).",
    }
    return tasks, meta

"""Engine A contract for ford.utils.meta_preprocessor (C03, C15): metadata lines form a prefix, the body is the untouched remaining suffix."""
from __future__ import annotations
import z3
from pyvc.contract import *
from pyvc.values import *

I, S, B = z3.IntSort(), z3.StringSort(), z3.BoolSort()
SI = z3.SeqSort(I)
AH, AV = z3.ArraySort(S, B), z3.ArraySort(S, SI)
fn = lambda name, *sorts: z3.Function(name, *sorts)
ISMETA, ISMORE, ISEND, ISBEGIN = (fn(f"MATCHES_{n}", S, B) for n in ("META_RE", "META_MORE_RE", "END_RE", "BEGIN_RE"))
GKEY, GVAL, GMORE = fn("GROUP_META_RE_key", S, S), fn("GROUP_META_RE_value", S, S), fn("GROUP_META_MORE_RE_value", S, S)
ACTIVE = fn("MP_ACTIVE", SI, I, B)          # lines 0..j-1 were all metadata lines
KEY = fn("MP_KEY", SI, I, S)                # current key ('' = none yet)
MH, MV = fn("MP_H", SI, I, AH), fn("MP_V", SI, I, AV)


def line(L, j):
    return STR_OF(L[j])


def stopline(L, j):
    s = line(L, j)
    return z3.Or(STRIP(s) == z3.StringVal(""), ISEND(s))


def header(L, j):
    s = line(L, j)
    return z3.And(z3.Not(stopline(L, j)), z3.Or(ISMETA(s), z3.And(ISMORE(s), z3.Length(KEY(L, j)) > 0)))


def unfold(L, j):
    s = line(L, j)
    newkey = STRIP(LOWER(GKEY(s)))
    k1 = z3.If(ISMETA(s), newkey, KEY(L, j))
    val = z3.If(ISMETA(s), STRIP(GVAL(s)), STRIP(GMORE(s)))          # every value is stripped
    cur = z3.If(z3.Select(MH(L, j), k1), z3.Select(MV(L, j), k1), z3.Empty(SI))
    upd = z3.And(ACTIVE(L, j), header(L, j))
    return [ACTIVE(L, 0), KEY(L, 0) == z3.StringVal(""), MH(L, 0) == z3.K(S, z3.BoolVal(False)), MV(L, 0) == z3.K(S, z3.Empty(SI)),
            ACTIVE(L, j + 1) == upd, KEY(L, j + 1) == z3.If(upd, k1, KEY(L, j)),
            MH(L, j + 1) == z3.If(upd, z3.Store(MH(L, j), k1, True), MH(L, j)),
            MV(L, j + 1) == z3.If(upd, z3.Store(MV(L, j), k1, z3.Concat(cur, z3.Unit(SID(val)))), MV(L, j)),
            STR_OF(SID(val)) == val]


def meta_preprocessor(prop="C03"):
    c = Contract("ford.utils", "meta_preprocessor", prop)
    c.param("lines", TList("str"))
    for n in ("META_RE", "META_MORE_RE", "BEGIN_RE", "END_RE"):
        c.globals[n] = SOpaque("regex", n)

    class TKey(TStr):
        def coerce(self, eng, path, v):
            if isinstance(v, SNone):
                return SStr(z3.StringVal(""))      # None and '' are both falsy and never used as a key
            return super().coerce(eng, path, v)
    c.local("key", TKey())
    c.assumed.append("regex constants are opaque here: X_RE.match(s) is an uninterpreted predicate of s and its named groups uninterpreted functions of s "
                     "(the patterns themselves have Engine B contracts)")
    c.assumed.append("a metadata key matched by META_RE is never empty after lower().strip() (the pattern demands [A-Za-z0-9_-]+)")
    E = lambda v: V(v._e, v._e.entry)
    # L: the input lines after the optional leading `---` line
    def L0(e):
        seq = e.heap.list_get(e.val("lines"))
        begin = z3.And(z3.Length(seq) > 0, ISBEGIN(STR_OF(seq[0])))
        return z3.If(begin, z3.SubSeq(seq, 1, z3.Length(seq) - 1), seq)

    def kk(v):
        return z3.Length(L0(E(v))) - z3.Length(v.lines)

    def inv(v):
        L = L0(E(v))
        k = kk(v)
        m = v.val("meta")
        return z3.And(0 <= k, v.lines == z3.SubSeq(L, k, z3.Length(L) - k), ACTIVE(L, k), v.key == KEY(L, k),
                      v.heap.dict_has(m) == MH(L, k), v.heap.dict_val(m) == MV(L, k))
    c.requires("keys_nonempty", lambda v: z3.BoolVal(True))
    c.loop(0, invariants=[("scanned_prefix_is_metadata_and_table_is_its_fold", inv)],
           unfold=lambda v: unfold(L0(E(v)), kk(v)) + [z3.Implies(ISMETA(line(L0(E(v)), kk(v))), z3.Length(STRIP(LOWER(GKEY(line(L0(E(v)), kk(v)))))) > 0)],
           variant=lambda v: z3.Length(v.lines))
    c.post_facts = lambda v0: [ACTIVE(L0(v0), 0), KEY(L0(v0), 0) == z3.StringVal(""), MH(L0(v0), 0) == z3.K(S, z3.BoolVal(False)), MV(L0(v0), 0) == z3.K(S, z3.Empty(SI))]

    def post(v0, res, v1):
        L = L0(v0)
        n = z3.Length(L)
        meta, body = res.items[0], res.items[1]
        bseq = v1.heap.list_get(body)
        def P(k, consumed):
            return z3.And(0 <= k, k <= n, ACTIVE(L, k), z3.Or(k == n, z3.Not(header(L, k))),
                          v1.heap.dict_has(meta) == MH(L, k), v1.heap.dict_val(meta) == MV(L, k),
                          bseq == z3.SubSeq(L, k + consumed, n - k - consumed),
                          z3.BoolVal(True) if consumed == 0 else z3.And(k < n, stopline(L, k)),
                          z3.BoolVal(True) if consumed == 1 else z3.Or(k == n, z3.Not(stopline(L, k))))
        k0 = n - z3.Length(bseq)
        return z3.Or(P(k0, 0), P(k0 - 1, 1))
    c.ensures("metadata_is_a_prefix_fold_and_body_is_the_untouched_suffix", post)
    c.allowed_raises = set()
    from harness import loader

    def search():
        import itertools
        ut = loader.import_repo("ford.utils")
        kinds = ["author: Bob ", "  Key2:   spaced value\t", "    continued line  ", "", "plain text", "---", "...", "a-b: x: y", "text: with colon"]
        def oracle(lines):
            lines = list(lines)
            if lines and ut.BEGIN_RE.match(lines[0]):
                lines = lines[1:]
            meta, key, k = {}, None, 0
            while k < len(lines):
                s = lines[k]
                if s.strip() == "" or ut.END_RE.match(s):
                    k += 1
                    break
                m1 = ut.META_RE.match(s)
                m2 = ut.META_MORE_RE.match(s)
                if m1:
                    key = m1.group("key").lower().strip()
                    meta.setdefault(key, []).append(m1.group("value").strip())
                elif m2 and key:
                    meta[key].append(m2.group("value").strip())
                else:
                    break
                k += 1
            return meta, lines[k:]
        for n in (1, 2, 3, 4):
            for seq in itertools.product(kinds, repeat=n):
                exp = oracle(seq)
                m, body = ut.meta_preprocessor(list(seq))
                if (dict(m), body) != exp:
                    return {"confirmed": True, "input": list(seq), "actual": repr((dict(m), body)), "expected": repr(exp), "how": "real meta_preprocessor vs executable spec"}
        return None
    c.search_fn = search
    return c


def rx_obligations(prop="C15"):
    """Engine B: the two line patterns of the metadata block partition the lines the way the format is documented: a line indented by four or more blanks
    continues the previous option (it is never a new `key:` line), and every `key: value` line with at most three leading blanks is a key line"""
    from harness import loader
    from revc.oblig import RX, langs_disjoint, lang_nonempty
    from revc import spec as SP
    from revc.translate import lang
    ut = loader.import_repo("ford.utils")
    out = []
    meta, more = RX("ford.utils.META_RE", ut.META_RE, "match", prop), RX("ford.utils.META_MORE_RE", ut.META_MORE_RE, "match", prop)
    try:
        out.append(langs_disjoint(f"{prop}.B.META_RE.disjoint_from_continuation_lines", "ford.utils.META_RE / META_MORE_RE", meta.L, more.L,
                                  "no line is both a `key: value` line and a continuation line (META_RE is tried first: a continuation line of the form '    word: text' must stay a continuation)",
                                  replay=lambda w: {"confirmed": bool(ut.META_RE.match(w) and ut.META_MORE_RE.match(w)), "input": w,
                                                    "actual": {"META_RE": bool(ut.META_RE.match(w)), "META_MORE_RE": bool(ut.META_MORE_RE.match(w))}, "how": "both patterns on the witness line"}))
    except Exception as e:
        from harness.core import OR, UNKNOWN
        out.append(OR(id=f"{prop}.B.META_RE.disjoint_from_continuation_lines", status=UNKNOWN, kind="B", target="ford.utils.META_RE", detail=f"unsupported: {e}"))
    keyline = SP.seq(SP.alt(SP.lit(""), SP.lit(" "), SP.lit("  "), SP.lit("   ")), SP.plus(SP.cls(SP.chars("abcdefghijklmnopqrstuvwxyzABCDEFGHIJKLMNOPQRSTUVWXYZ0123456789_-"))), SP.lit(":"),
                     SP.star(SP.notcls(SP.chars("\n"))))
    out.append(lang_nonempty(f"{prop}.G.META_RE.spec_inhabited", "ford.utils.META_RE", keyline, "key lines"))
    out.append(meta.covers(f"{prop}.B.META_RE.covers_key_lines", keyline, "every line `key: value` with at most three leading blanks is a key line"))
    contline = SP.seq(SP.lit("    "), SP.star(SP.notcls(SP.chars("\n"))))
    out.append(more.covers(f"{prop}.B.META_MORE_RE.covers_continuation_lines", contline, "every line indented by four or more blanks is a continuation line"))
    return out


def delimiter_obligations(prop="C03"):
    """Engine B: the optional YAML-style delimiter lines of a metadata block (`---` before, `---` / `...` after) stand alone.  A documentation line that merely begins with
    these characters and goes on with text is text: were it taken for a delimiter it would be dropped, and its words with it (C03: every word of the comment is rendered)."""
    from harness import loader
    from revc.oblig import RX
    from revc import spec as SP
    ut = loader.import_repo("ford.utils")
    anych = SP.notcls(SP.chars("\n"))
    # anything str.isspace() / \s does not count as white space (the separators \x1c-\x1f do count, for Python)
    ink = SP.notcls(SP.chars(" \t\n\r\x0b\x0c\x1c\x1d\x1e\x1f"))
    out = []
    for name, heads in (("BEGIN_RE", ["---"]), ("END_RE", ["---", "..."])):
        rx = RX(f"ford.utils.{name}", getattr(ut, name), "match", prop)
        for h in heads:
            tag = "dashes" if h == "---" else "dots"
            texty = SP.seq(SP.lit(h), SP.star(anych), ink, SP.star(anych))
            out.append(rx.excludes(f"{prop}.B.{name}.{tag}_followed_by_text_is_no_delimiter", texty, f"a line `{h}` followed by anything but white space is not a delimiter line"))
            out.append(rx.covers(f"{prop}.B.{name}.bare_{tag}_is_a_delimiter", SP.seq(SP.lit(h), SP.star(SP.cls(SP.chars(" \t")))), f"`{h}` alone (trailing blanks allowed) is a delimiter line"))
    return out

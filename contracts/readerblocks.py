"""Engine A block contracts inside FortranReader.__next__ (C02 continuation joining, C03 marker substitution)."""
from __future__ import annotations
import z3
from pyvc.contract import *
from pyvc.blocks import between
from pyvc.values import *
from contracts.display import H, sel

S = z3.StringSort()
AMP = z3.StringVal("&")
RD_FIELDS = {"prevdoc": "bool", "docbuffer": "list:str", "docmark": "str", "reading_alt": "int", "predocmark": "str", "docmark_alt": "str",
             "predocmark_alt": "str", "line_number": "int", "name": "str"}


def continuation(prop="C02"):
    """the statement `if len(line) == 0: ... else: ...` through `linebuffer += line` inside the `while not done` loop.
    Inputs: line (already stripped), continued, linebuffer.  Oracle: Fortran free-form continuation."""
    c = Contract("ford.reader", "FortranReader.__next__", prop)
    c.qual_suffix = "continuation"
    c.block_select = between("if len(line) == 0:", "linebuffer += line", include_end=True, container="while not done")
    c.dropped.append("block contract: only the statements from `if len(line) == 0:` through `linebuffer += line` inside `while not done`")
    c.fields = dict(RD_FIELDS)
    c.param("self", TRef("FortranReader"))
    for n, t in (("line", TStr()), ("linebuffer", TStr()), ("continued", TBool()), ("reading_predoc", TBool()), ("reading_predoc_alt", TInt()),
                 ("done", TBool())):
        c.param(n, t)
    c.local("line", TStr())
    c.local("linebuffer", TStr())
    # `line = line.strip()` precedes the block: line is stripped (idempotence instance of the uninterpreted STRIP)
    c.requires("line_is_stripped", lambda v: z3.And(STRIP(v.line) == v.line, z3.Implies(z3.Length(v.line) > 0,
                                                   z3.And(z3.SubString(v.line, 0, 1) != z3.StringVal(" "),
                                                          z3.SubString(v.line, z3.Length(v.line) - 1, 1) != z3.StringVal(" ")))))
    L = lambda v: v.line
    lead = lambda v: z3.PrefixOf(AMP, L(v))
    X = lambda v: z3.If(lead(v), z3.SubString(L(v), 1, z3.Length(L(v)) - 1), L(v))
    tail = lambda v: z3.SuffixOf(AMP, X(v))
    body = lambda v: z3.If(tail(v), z3.SubString(X(v), 0, z3.Length(X(v)) - 1), X(v))
    skip = lambda v: z3.And(lead(v), z3.If(v.continued, STRIP(X(v)) == z3.StringVal(""), z3.Length(L(v)) == 1))
    illegal = lambda v: z3.And(lead(v), z3.Not(v.continued), z3.Length(L(v)) != 1)

    def joined(v0, res, v1):
        blank = z3.Length(L(v0)) == 0
        exp_buf = z3.If(blank, v0.linebuffer,
                        z3.Concat(z3.If(lead(v0), v0.linebuffer, z3.Concat(STRIP(v0.linebuffer), z3.StringVal(" "))), body(v0)))
        return z3.And(z3.Not(skip(v0)), z3.Not(illegal(v0)), v1.linebuffer == exp_buf,
                      v1.continued == z3.If(blank, v0.continued, tail(v0)))
    c.ensures("buffer_is_the_exact_join_and_continued_iff_trailing_ampersand", joined)
    c.on_continue = [("only_for_a_lone_ampersand", lambda v0, v1: z3.And(skip(v0), v1.linebuffer == v0.linebuffer, v1.continued == v0.continued))]
    c.raises("only_for_leading_ampersand_without_open_continuation", lambda v0, exc, v1: z3.And(z3.BoolVal(exc == "ValueError"), illegal(v0)))
    return c

"""Engine A block contracts inside FortranReader.__next__ (C02 continuation joining, C03 marker substitution)."""
from __future__ import annotations
import z3
from pyvc.contract import *
from pyvc.blocks import between
from pyvc.values import *
from contracts.display import H, sel

S = z3.StringSort()
AMP = z3.StringVal("&")
RD_FIELDS = {"prevdoc": "bool", "docbuffer": "list:str", "docmark": "str", "reading_alt": "int", "predocmark": "str", "docmark_alt": "str",
             "predocmark_alt": "str", "line_number": "int", "name": "str"}


def continuation(prop="C02"):
    """the statement `if len(line) == 0: ... else: ...` through `linebuffer += line` inside the `while not done` loop.
    Inputs: line (already stripped), continued, linebuffer.  Oracle: Fortran free-form continuation."""
    c = Contract("ford.reader", "FortranReader.__next__", prop)
    c.qual_suffix = "continuation"
    c.block_select = between("if len(line) == 0:", "linebuffer += line", include_end=True, container="while not done")
    c.dropped.append("block contract: only the statements from `if len(line) == 0:` through `linebuffer += line` inside `while not done`")
    c.fields = dict(RD_FIELDS)
    c.param("self", TRef("FortranReader"))
    for n, t in (("line", TStr()), ("linebuffer", TStr()), ("continued", TBool()), ("reading_predoc", TBool()), ("reading_predoc_alt", TInt()),
                 ("done", TBool())):
        c.param(n, t)
    c.local("line", TStr())
    c.local("linebuffer", TStr())
    # `line = line.strip()` precedes the block: line is stripped (idempotence instance of the uninterpreted STRIP)
    c.requires("line_is_stripped", lambda v: z3.And(STRIP(v.line) == v.line, z3.Implies(z3.Length(v.line) > 0,
                                                   z3.And(z3.SubString(v.line, 0, 1) != z3.StringVal(" "),
                                                          z3.SubString(v.line, z3.Length(v.line) - 1, 1) != z3.StringVal(" ")))))
    L = lambda v: v.line
    lead = lambda v: z3.PrefixOf(AMP, L(v))
    X = lambda v: z3.If(lead(v), z3.SubString(L(v), 1, z3.Length(L(v)) - 1), L(v))
    tail = lambda v: z3.SuffixOf(AMP, X(v))
    body = lambda v: z3.If(tail(v), z3.SubString(X(v), 0, z3.Length(X(v)) - 1), X(v))
    skip = lambda v: z3.And(lead(v), z3.If(v.continued, STRIP(X(v)) == z3.StringVal(""), z3.Length(L(v)) == 1))
    illegal = lambda v: z3.And(lead(v), z3.Not(v.continued), z3.Length(L(v)) != 1)

    def joined(v0, res, v1):
        blank = z3.Length(L(v0)) == 0
        exp_buf = z3.If(blank, v0.linebuffer,
                        z3.Concat(z3.If(lead(v0), v0.linebuffer, z3.Concat(STRIP(v0.linebuffer), z3.StringVal(" "))), body(v0)))
        return z3.And(z3.Not(skip(v0)), z3.Not(illegal(v0)), v1.linebuffer == exp_buf,
                      v1.continued == z3.If(blank, v0.continued, tail(v0)))
    c.ensures("buffer_is_the_exact_join_and_continued_iff_trailing_ampersand", joined)
    c.on_continue = [("only_for_a_lone_ampersand", lambda v0, v1: z3.And(skip(v0), v1.linebuffer == v0.linebuffer, v1.continued == v0.continued))]
    c.raises("only_for_leading_ampersand_without_open_continuation", lambda v0, exc, v1: z3.And(z3.BoolVal(exc == "ValueError"), illegal(v0)))
    return c


# ------------------------------------------------------------------ marker substitution blocks of FortranReader.__next__ (C03)
I = z3.IntSort()
START4 = z3.Function("MATCH_START_4", S, I)


def marker_block(which, prop="C03"):
    """which in predocmark | predocmark_alt | docmark_alt: the `if match:` statement that rewrites the marker to the plain doc marker"""
    from pyvc.blocks import stmt_containing
    c = Contract("ford.reader", "FortranReader.__next__", prop)
    c.qual_suffix = f"marker_{which}"
    c.block_select = stmt_containing(f"tmp[1 + len(self.{which}):]")
    c.block_select_container = "while not done"
    sel0 = c.block_select

    def select(fn):
        loops = [n for n in ast.walk(fn) if isinstance(n, ast.While) and ast.unparse(n.test) == "not done"]
        if len(loops) != 1:
            from harness.loader import TargetMissing
            raise TargetMissing("while not done")
        fake = ast.FunctionDef(name="b", args=fn.args, body=loops[0].body, decorator_list=[], lineno=fn.lineno)
        return sel0(fake)
    import ast
    c.block_select = select
    c.dropped.append(f"block contract: the `if match:` statement handling {which} inside `while not done`")
    c.fields = dict(RD_FIELDS)
    c.param("self", TRef("FortranReader"))
    c.param("line", TStr())
    c.param("reading_predoc", TBool())
    c.param("reading_predoc_alt", TInt())
    c.globals["match"] = None
    c.params["match"] = TConst(None)

    class TMatch(T):
        def fresh(self, eng, path, name):
            return SMatch("docmark", path.env["line"].t)
    c.params["match"] = TMatch()
    # group(4) of the match is the comment text from the '!' on; its start index is where the comment starts (C02 unique_split obligation)
    c.methods_extra = True
    g4 = lambda v: z3.Function("GROUP_docmark_4", S, S)(v.line)
    st4 = lambda v: START4(v.line)
    mark = lambda v: z3.Select(v._e.field_array(v._p, which), v.self)
    dmark = lambda v: z3.Select(v._e.field_array(v._p, "docmark"), v.self)

    def setup(eng, path):
        for f in (which, "docmark", "docbuffer", "reading_alt"):
            eng.field_array(path, f)
        path.heap._lmap("str")
    c.extra_setup.append(setup)
    c.requires("match_holds_and_group4_starts_with_the_marker",
               lambda v: z3.And(z3.Function("MATCHES_docmark", S, z3.BoolSort())(v.line), z3.PrefixOf(z3.Concat(z3.StringVal("!"), mark(v)), g4(v)),
                                st4(v) >= 0, st4(v) <= z3.Length(v.line),
                                z3.Select(v._e.field_array(v._p, "docbuffer"), v.self) > 0, z3.Select(v._e.field_array(v._p, "docbuffer"), v.self) < v.heap.alloc0))
    buf = lambda v: v.heap.list_get(SList(z3.Select(v._e.field_array(v._p, "docbuffer"), v.self), "str"))

    def rewritten(v0):
        g = g4(v0)
        n = 1 + z3.Length(mark(v0))
        return z3.Concat(z3.StringVal("!"), dmark(v0), z3.SubString(g, n, z3.Length(g) - n))
    inline = lambda v0: z3.Length(STRIP(z3.SubString(v0.line, 0, st4(v0)))) > 0
    c.ensures("queued_line_is_plain_marker_plus_untouched_rest",
              lambda v0, res, v1: z3.And(z3.Not(inline(v0)), z3.Length(buf(v1)) == z3.Length(buf(v0)) + 1,
                                         STR_OF(buf(v1)[z3.Length(buf(v0))]) == rewritten(v0), z3.SubSeq(buf(v1), 0, z3.Length(buf(v0))) == buf(v0)))
    c.raises("inline_use_of_a_preceding_or_alternate_marker_is_rejected", lambda v0, exc, v1: z3.And(z3.BoolVal(exc in ("ValueError", "RuntimeError")), inline(v0)))
    return c


def pass_back(prop="C02"):
    """FortranReader.pass_back(line): the statement handed back is the *next* one returned - it goes in front of everything still pending (the remaining
    `;`-separated statements of the current line), and nothing else changes.  FortranReader.__next__ pops from the front (`self.pending.pop(0)`)."""
    c = Contract("ford.reader", "FortranReader.pass_back", prop)
    c.fields = {"pending": "list:str"}
    c.param("self", TRef("FortranReader"))
    c.param("line", TStr())

    def setup(eng, path):
        eng.field_array(path, "pending")
        path.heap._lmap("str")
    c.extra_setup.append(setup)
    pid = lambda v: z3.Select(v._e.field_array(v._p, "pending"), v.self)
    pend = lambda v: v.heap.list_get(SList(pid(v), "str"))
    c.requires("pending_is_a_list", lambda v: z3.And(pid(v) > 0, pid(v) < v.heap.alloc0))
    c.ensures("handed_back_line_is_first_and_the_rest_keeps_its_order",
              lambda v0, res, v1: z3.And(pid(v1) == pid(v0), z3.Length(pend(v1)) == z3.Length(pend(v0)) + 1, STR_OF(pend(v1)[0]) == v0.line,
                                         z3.SubSeq(pend(v1), 1, z3.Length(pend(v0))) == pend(v0)))
    c.no_raise = True
    return c


def include_forwards_configuration(prop="C03", names=("docmark", "predocmark", "docmark_alt", "predocmark_alt", "fixed", "length_limit", "inc_dirs", "encoding"), replay=None):
    """FortranReader.include(): an included file is read by a nested FortranReader.  It is part of the including file: the nested reader must be configured like this one.
    For every configuration parameter P in `names` the nested call binds P (by position, per the signature of __init__ read from the same source, or by keyword) to
    `self.P`."""
    import ast
    from harness import loader
    from harness.core import OR, PROVED, REFUTED, UNKNOWN
    try:
        inc = loader.find_def("ford.reader", "FortranReader.include")
        init = loader.find_def("ford.reader", "FortranReader.__init__")
    except loader.TargetMissing as e:
        return [OR(id=f"{prop}.S.FortranReader.include.configuration", status=UNKNOWN, kind="S", target="ford.reader.FortranReader.include", detail=str(e))]
    params = [a.arg for a in init.args.args][1:]             # without self
    calls = [c for c in ast.walk(inc) if isinstance(c, ast.Call) and isinstance(c.func, ast.Name) and c.func.id == "FortranReader"]
    if len(calls) != 1:
        return [OR(id=f"{prop}.S.FortranReader.include.configuration", status=UNKNOWN, kind="S", target="ford.reader.FortranReader.include", detail=f"{len(calls)} nested reader constructions")]
    call = calls[0]
    bound = {}
    for i, a in enumerate(call.args):
        if i < len(params):
            bound[params[i]] = ast.unparse(a)
    for k in call.keywords:
        if k.arg:
            bound[k.arg] = ast.unparse(k.value)
    out = []
    for p in names:
        if p not in params:
            out.append(OR(id=f"{prop}.S.FortranReader.include.forwards_{p}", status=UNKNOWN, kind="S", target="ford.reader.FortranReader.include", detail=f"__init__ has no parameter {p}"))
            continue
        ok = bound.get(p) == f"self.{p}"
        r = OR(id=f"{prop}.S.FortranReader.include.forwards_{p}", status=PROVED if ok else REFUTED, kind="S", role="pre", backend="ast", target="ford.reader.FortranReader.include",
               desc=f"the nested reader of an included file gets `{p}=self.{p}` (bound: `{bound.get(p, '<default of __init__>')}`)")
        if not ok:
            r.witness = {"call": ast.unparse(call)[:300], "parameter": p, "bound_to": bound.get(p)}
            r.detail = f"the included file is read with another `{p}` than the file that includes it"
            if replay:
                r.replay = replay()
        out.append(r)
    return out


LITERAL_END = z3.Function("LITERAL_END", S, S, z3.IntSort())     # _literal_end(buffer, line), under its own contract (scanners.literal_end): 0 <= result <= len(line)


def literal_tail(prop="C02"):
    """the `if in_quote:` statement of FortranReader.__next__ that cuts a line at the end of a continued character literal.  Oracle: the line is cut exactly at the index
    _literal_end returns (an index into the line as it was read - indentation included); what lies before is the rest of the literal, what lies after is code again, and the
    reader is inside the literal afterwards iff the literal is not closed on this line.  Nothing of the line is lost or duplicated."""
    import ast
    from pyvc.blocks import stmt_containing
    c = Contract("ford.reader", "FortranReader.__next__", prop)
    c.qual_suffix = "literal_tail"
    sel0 = stmt_containing("_literal_end(linebuffer, line)")

    def select(fn):
        loops = [n for n in ast.walk(fn) if isinstance(n, ast.While) and ast.unparse(n.test) == "not done"]
        if len(loops) != 1:
            from harness.loader import TargetMissing
            raise TargetMissing("while not done")
        fake = ast.FunctionDef(name="b", args=fn.args, body=loops[0].body, decorator_list=[], lineno=fn.lineno)
        return sel0(fake)
    c.block_select = select
    c.dropped.append("block contract: the `if in_quote:` statement that calls _literal_end inside `while not done`")
    c.fields = dict(RD_FIELDS)
    c.param("self", TRef("FortranReader"))
    for n, t in (("line", TStr()), ("linebuffer", TStr()), ("in_quote", TBool()), ("literal_tail", TStr())):
        c.param(n, t)
    c.local("line", TStr())
    c.local("literal_tail", TStr())
    c.local("literal_end", TInt())
    c.calls["_literal_end"] = lambda eng, path, e, args, recv: SInt(LITERAL_END(eng.to_str(path, args[0]), eng.to_str(path, args[1])))
    c.assumed.append("_literal_end(buffer, line) is the uninterpreted LITERAL_END with 0 <= LITERAL_END <= len(line) (its own contract: C02.A._literal_end)")
    LE = lambda v: LITERAL_END(v.linebuffer, v.line)
    c.requires("literal_end_in_range_and_tail_empty", lambda v: z3.And(LE(v) >= 0, LE(v) <= z3.Length(v.line), v.literal_tail == z3.StringVal("")))

    def post(v0, res, v1):
        n, le = z3.Length(v0.line), LE(v0)
        closed = z3.And(v0.in_quote, le < n)
        return z3.And(z3.Concat(v1.literal_tail, v1.line) == v0.line,
                      z3.Length(v1.literal_tail) == z3.If(closed, le, 0),
                      v1.in_quote == z3.And(v0.in_quote, z3.Not(closed)))
    c.ensures("line_cut_exactly_at_the_end_of_the_literal_and_in_code_state_iff_closed", post)
    c.no_raise = True
    return c

"""C01 - documented entity tree equals the declared program structure (partial).  DESIGN.md section 6, C01."""
from __future__ import annotations
import time
from harness.core import Task, OR, PROVED, REFUTED
from contracts import scanners, rx_cascade, resub, casefold, operands
from contracts.common import *
from specs import stmts as ST

PROP = "C01"


def bounded_task():
    def run():
        from bounded import c01
        t0 = time.time()
        hit = c01.search()
        r = OR(id=f"{PROP}.Bd.parser.spelling_equivalence", status=REFUTED if hit else PROVED, kind="Bd", role="bounded", target="ford.sourceform.FortranSourceFile (real parser)",
               desc="one model program (module variables, a derived type, a subroutine with four dummy arguments, a function with result) rendered with every "
                    "combination of kind spelling x attribute on declaration / attribute statements x END spelling x '::' x letter case: equal canonical trees; a second model "
                    "program (type-bound specific / generic / final procedures, rank >= 2 bounds in DIMENSION / ALLOCATABLE / POINTER / TARGET statements, INTENT(IN OUT), "
                    "entity character lengths `c*20`, EXTERNAL, interfaces, enumeration, common block, namelist) x attribute style x keyword case x '::' x identifier case at use sites",
               bound=f"{c01.count_cases()} renderings of two model programs", cases=c01.count_cases(), seconds=time.time() - t0, backend="enumeration")
        if hit:
            r.replay, r.witness = hit, hit["input"]
        return [r]
    return Task(f"{PROP}.Bd.parser", PROP, "real parser", run)


def build(tier, seed):
    set_tier(tier)
    tasks = [a_task(PROP, scanners.paren_split), a_task(PROP, scanners.get_parens)]
    for k in ST.KINDS:
        tasks.append(Task(f"{PROP}.B.kind[{k}]", PROP, f"cascade:{k}", (lambda k=k: rx_cascade.kind_obligations(PROP, k))))
    tasks.append(Task(f"{PROP}.B.case_closed", PROP, "cascade", lambda: rx_cascade.case_closed_obligations(PROP)))
    tasks.append(Task(f"{PROP}.B.exclusions", PROP, "cascade", lambda: rx_cascade.executable_exclusions(PROP)))
    tasks.append(Task(f"{PROP}.B.ordered_alt", PROP, "cascade", lambda: rx_cascade.ordered_alt_obligations(PROP)))
    tasks.append(Task(f"{PROP}.S.resub", PROP, "re.sub call sites", lambda: resub.obligations(PROP)))
    def _replay():
        from bounded import c01
        return c01.search_rich() or c01.search()
    tasks.append(Task(f"{PROP}.S.casefold", PROP, "keyword tests on captured text", lambda: casefold.obligations(PROP, "ford.sourceform", _replay)))
    tasks.append(Task(f"{PROP}.S.casefold.names", PROP, "comparisons of entity names", lambda: casefold.name_obligations(PROP, replay=_replay)))
    tasks.append(Task(f"{PROP}.S.casefold.attribs", PROP, "attribute membership tests", lambda: casefold.attribute_obligations(PROP, replay=_replay)))
    tasks.append(Task(f"{PROP}.S.lower", PROP, "FortranContainer.__init__", lambda: __import__("contracts.plumbing", fromlist=["x"]).lower_after_masking(PROP, lambda: __import__("bounded.c02", fromlist=["x"]).parser_literal_cases())))
    tasks.append(Task(f"{PROP}.S.include", PROP, "FortranReader.include", lambda: __import__("contracts.readerblocks", fromlist=["x"]).include_forwards_configuration(PROP, replay=lambda: __import__("bounded.c14", fromlist=["x"]).included_fixed_form())))
    tasks.append(Task(f"{PROP}.S.casefold.flow", PROP, "keyword tests on local names", lambda: casefold.flow_obligations(PROP, replay=_replay)))
    tasks.append(Task(f"{PROP}.S.casefold.prefix", PROP, "keyword prefix tests", lambda: casefold.prefix_obligations(PROP, replay=_replay)))
    tasks.append(Task(f"{PROP}.S.operands", PROP, "operand list splitting", lambda: operands.obligations(PROP, _replay)))
    def _defaults():
        from contracts import plumbing
        from bounded import c01
        return plumbing.mutable_defaults_not_shared(PROP, ("ford.sourceform",), c01.implicit_attributes)
    tasks.append(Task(f"{PROP}.S.default_not_shared", PROP, "mutable default arguments", _defaults))
    def _host():
        from contracts import scoping
        from bounded import c01
        c = scoping.host_block(PROP)
        c.search_fn = c01.shadowed_members
        return c
    _host.__name__ = "host_block"
    tasks.append(a_task(PROP, _host))
    tasks.append(bounded_task())

    def _cont():
        # how continuation lines are joined decides the text of the statement the parser sees (blanks after a leading `&` inside a continued literal belong to the literal)
        from bounded import c02
        c = __import__("contracts.readerblocks", fromlist=["x"]).continuation(PROP)
        c.search_fn = lambda: c02.search(seed)
        return c
    _cont.__name__ = "continuation_block"
    tasks.append(a_task(PROP, _cont))
    # fixed-form sources reach the parser through convertToFree: what it does to continuation, comment and blank lines decides the entity tree of such a file (C14's stand-ins)
    tasks.append(standin_task(PROP, "reader.fixed_vs_free", lambda: __import__("bounded.c14", fromlist=["x"]).search(seed, keep_n=400), "ford.reader.FortranReader(fixed=True) = convertToFree + free-form reader",
                              "one token-level program rendered in fixed and in free form (continuation character, comment lines between continuation lines, labels, sequence field): same statements",
                              "400 renderings drawn (seeded) from the full product", 400))
    tasks.append(standin_task(PROP, "project.form_by_extension", lambda: __import__("bounded.c14", fromlist=["x"]).form_by_extension(), "ford.fortran_project.Project (real)",
                              "one fixed-form module per fixed extension and one free-form module per free extension, with continuation lines: every module and variable is found", "9 files", 9))
    meta = {
        "trusted_base": TRUSTED_BASE,
        "assumptions": PYVC_ASSUMPTIONS + REVC_ASSUMPTIONS + [
            "statement-kind oracle (specs/stmts.py): regular languages over masked, stripped lines; parenthesised text and expressions abstracted to nesting depth <= 2 "
            "(an under-approximation of the supported subset)",
            "context of a statement kind (is `incontains` set, is the container an INTERFACE) decides which earlier guarded branches can fire; `blocklevel == 0` "
            "is taken as possibly true everywhere",
            "exclusion obligations are stated for statements whose first identifier is not a declaration keyword (keyword-named variables are outside the subset)",
            "re.sub call-site obligations are syntactic: a replacement built from the `strings`/`capture_strings` lists must be a callable or have its backslashes doubled",
        ],
        "functions_under_contract": fn_meta([("ford.utils", "paren_split", None), ("ford.utils", "get_parens", None)]) +
        fn_meta([("ford.sourceform", "FortranCodeUnit.correlate", "block contract (host association): statements from the first `self.all_procs...` up to `if isinstance(self, FortranSubmodule)`: "
                  "all_vars = host table, host dummies and result, overlaid by the unit's own variables")]) +
        [{"parameters": "every parameter with a mutable default in ford/sourceform.py (not kept, not mutated)"}] +
        [{"constants": "every regex of the dispatch cascade of FortranContainer.__init__, read from the if/elif chain on every run"},
         {"call_sites": "re.sub / Pattern.sub with source-derived replacements in ford/sourceform.py"},
         {"call_sites": "comparisons of regex-captured text with keyword literals in ford/sourceform.py (case fold required)"},
         {"call_sites": "comma splitting of operand lists that may hold parentheses (FortranContainer.__init__ attribute statements, line_to_variables)"}],
        "unverified_surroundings": ["constructor recursion over the shared reader iterator", "line_to_variables / parse_type as a whole", "FortranProcedure._cleanup, "
                                    "FortranFunction._cleanup, FortranType._cleanup, process_attribs (union-typed lists are outside Engine A's value model; covered by the "
                                    "bounded differential run only)", "interface flattening", "generated HTML"],
        "explanation": "Per statement kind: every spelling of the kind in the supported subset is accepted by its pattern and can be consumed to its end, no branch "
                       "tested earlier in the cascade captures it, dispatch is independent of letter case, executable statements are never taken for "
                       "declarations; paren_split / get_parens equal their depth-based specification for strings of any length.",
    }
    return tasks, meta

"""Engine A / B contracts for USE association (C06)."""
from __future__ import annotations
import z3
from pyvc.contract import *
from pyvc.values import *
from pyvc.engine import fresh
from contracts.heapmodel import FIELDS, class_model
from contracts.display import H, sel, lst, base

I, S, B = z3.IntSort(), z3.StringSort(), z3.BoolSort()
AH, AV, AS = z3.ArraySort(S, B), z3.ArraySort(S, I), z3.ArraySort(S, S)
# oracle folds.  EXPFOLD: over the exported names KS[0:k] of the used module (no ONLY list): a name comes in under its own name unless the USE statement renames it.
# CLAUSEFOLD: over the items LS[0:k] of the USE statement (local name -> name in the used module): a listed name that the module exports comes in under its local name.
AL = z3.SeqSort(I)          # a list of strings is a sequence of interned ids (SID)
EH = z3.Function("EXPFOLD_H", z3.SeqSort(S), I, AL, AV, AH)
EV = z3.Function("EXPFOLD_V", z3.SeqSort(S), I, AL, AV, AV)
CH = z3.Function("CLAUSEFOLD_H", z3.SeqSort(S), I, AH, AV, AS, AH, AV, AH)
CV = z3.Function("CLAUSEFOLD_V", z3.SeqSort(S), I, AH, AV, AS, AH, AV, AV)
EMPTY_H, EMPTY_V = z3.K(S, z3.BoolVal(False)), z3.K(S, z3.IntVal(0))


def exp_unfold(ks, k, renamed, exp_v):
    """the standard's rule for one exported name without an ONLY list: accessible under its own name iff no rename clause of the statement names it"""
    a = (renamed, exp_v)
    nm = ks[k]
    key = LOWER(nm)
    take = z3.Not(z3.Contains(renamed, z3.Unit(SID(key))))
    h, v = EH(ks, k, *a), EV(ks, k, *a)
    return [EH(ks, 0, *a) == EMPTY_H, EV(ks, 0, *a) == EMPTY_V,
            EH(ks, k + 1, *a) == z3.If(take, z3.Store(h, key, True), h), EV(ks, k + 1, *a) == z3.If(take, z3.Store(v, key, z3.Select(exp_v, nm)), v)]


def clause_unfold(ls, k, base_h, base_v, un_v, exp_h, exp_v):
    """... and for one item `local => remote` (or `name`, i.e. name => name) of the statement: the local name denotes the entity the module exports as `remote`, if there is one;
    every item counts - one entity may get several local names"""
    a = (base_h, base_v, un_v, exp_h, exp_v)
    local = ls[k]
    remote = z3.Select(un_v, local)
    take = z3.Select(exp_h, remote)
    h, v = CH(ls, k, *a), CV(ls, k, *a)
    return [CH(ls, 0, *a) == base_h, CV(ls, 0, *a) == base_v,
            CH(ls, k + 1, *a) == z3.If(take, z3.Store(h, local, True), h), CV(ls, k + 1, *a) == z3.If(take, z3.Store(v, local, z3.Select(exp_v, remote)), v)]


def used_objects(kind="pub_procs", prop="C06"):
    """decide half of FortranModule.get_used_entities: the closure used_objects(object_type, only) with the parsed clause (only, used_names: local -> remote, renamed: the
    remote names of the rename items) as ordinary inputs.  Oracle: the USE view of the standard (F2018 14.2.2) - see the two folds above."""
    c = base(Contract("ford.sourceform", "FortranModule.get_used_entities.used_objects", prop))
    c.qual_suffix = kind
    c.param("object_type", TConst(kind))
    c.param("only", TBool())
    c.param("self", TRef("FortranModule"))
    c.param("used_names", TDict("str", "str"))       # free variables of the closure: local (lower) -> remote (lower) ...
    c.param("renamed", TList("str"))                 # ... and the remote names that a rename item mentions
    c.hints["dict"] = "ref"
    E = lambda v: V(v._e, v._e.entry)

    def setup(eng, path):
        eng.field_array(path, kind)
        path.heap._dmap(SDict(0, "str", "ref"))
        path.heap._dmap(SDict(0, "str", "str"))
        path.heap._lmap("str")
    c.extra_setup.append(setup)
    expd = lambda e: SDict(sel(H(e, kind), e.self), "str", "ref")
    # the tables of a module are keyed by lower-cased names (C06.S.casefold.tables.*: every store folds its key)
    c.requires("exported_names_are_lower_case", lambda v: z3.BoolVal(True))
    class _Ghost:
        """the key sequence a loop iterates over, remembered in the environment of the path (cloned with it): the paths of the two branches of `if not only` run the second loop
        one after the other, each with an iterator of its own"""
        def __init__(self, seq):
            self.t = seq

    def base_of(e, p):
        """what the first loop leaves: nothing under an ONLY list, else the exported names that are not renamed away"""
        g = p.env.get("__ks0")
        if g is None:
            return EMPTY_H, EMPTY_V
        ks = g.t
        a = (renamed_seq(e), e.heap.dict_val(expd(e)))
        return z3.If(e.only, EMPTY_H, EH(ks, z3.Length(ks), *a)), z3.If(e.only, EMPTY_V, EV(ks, z3.Length(ks), *a))

    def renamed_seq(e):
        return e.renamed

    def frame(v):
        e = E(v)
        un, exp = e.val("used_names"), expd(e)
        return z3.And(v.heap.dict_has(un) == e.heap.dict_has(un), v.heap.dict_val(un) == e.heap.dict_val(un), v.renamed == e.renamed,
                      v.heap.dict_has(exp) == e.heap.dict_has(exp), v.heap.dict_val(exp) == e.heap.dict_val(exp), H(v, kind) == H(e, kind))

    def inv0(v):
        e = E(v)
        v._p.env["__ks0"] = _Ghost(v.it.seq)
        r = v.val("result")
        a = (renamed_seq(e), e.heap.dict_val(expd(e)))
        return z3.And(v.heap.dict_has(r) == EH(v.it.seq, v.k, *a), v.heap.dict_val(r) == EV(v.it.seq, v.k, *a))
    c.loop(0, invariants=[("result_is_the_fold_of_the_exported_names", inv0), ("frame", frame)],
           unfold=lambda v: exp_unfold(v.it.seq, v.k, renamed_seq(E(v)), E(v).heap.dict_val(expd(E(v)))), variant=lambda v: z3.Length(v.it.seq) - v.k)

    def ctx1(e, p):
        bh, bv = base_of(e, p)
        return (bh, bv, e.heap.dict_val(e.val("used_names")), e.heap.dict_has(expd(e)), e.heap.dict_val(expd(e)))

    def inv1(v):
        e = E(v)
        v._p.env["__ks1"] = _Ghost(v.it.seq)
        r = v.val("result")
        return z3.And(v.heap.dict_has(r) == CH(v.it.seq, v.k, *ctx1(e, v._p)), v.heap.dict_val(r) == CV(v.it.seq, v.k, *ctx1(e, v._p)))
    c.loop(1, invariants=[("result_is_the_fold_of_the_statement_s_items", inv1), ("frame", frame)],
           unfold=lambda v: clause_unfold(v.it.seq, v.k, *ctx1(E(v), v._p)), variant=lambda v: z3.Length(v.it.seq) - v.k)
    c.loop_result_seq = None

    def post(v0, res, v1):
        ls = v1._p.env["__ks1"].t
        return z3.And(v1.heap.dict_has(res) == CH(ls, z3.Length(ls), *ctx1(v0, v1._p)), v1.heap.dict_val(res) == CV(ls, z3.Length(ls), *ctx1(v0, v1._p)))
    c.ensures("imports_are_the_standards_use_view", post)

    def fr(v0, res, v1):
        exp = expd(v0)
        return z3.And(v1.heap.dict_has(exp) == v0.heap.dict_has(exp), v1.heap.dict_val(exp) == v0.heap.dict_val(exp), res.id > v0.heap.alloc0)
    c.ensures("exports_untouched_and_result_is_new", fr, role="frame")
    c.no_raise = True
    return c


def use_loop_obligations(prop="C06", replay=None):
    """FortranCodeUnit.correlate, the loop over the scope's USE statements: the four tables returned by `mod.get_used_entities(extra)` (under contract: exactly the
    accessible names, under their local names) are merged into the scope's name tables with `dict.update` - a use-associated name *replaces* whatever the scope inherited
    from its host under that name (F2018 19.5.1.4: a use-associated entity hides the host's), it is not merely added when the name is still free."""
    import ast
    from harness import loader
    from harness.core import OR, PROVED, REFUTED, UNKNOWN
    fn = loader.find_def("ford.sourceform", "FortranCodeUnit.correlate")
    loops = [n for n in ast.walk(fn) if isinstance(n, ast.For) and ast.unparse(n.iter) == "self.uses" and any("get_used_entities" in ast.unparse(s) for s in n.body)]
    oid = f"{prop}.S.FortranCodeUnit.correlate.use_associated_names_replace_inherited_ones"
    if len(loops) != 1:
        return [OR(id=oid, status=UNKNOWN, kind="S", target="ford.sourceform.FortranCodeUnit.correlate", detail=f"USE loop: {len(loops)} matches")]
    loop = loops[0]
    call = [s for s in loop.body if isinstance(s, ast.Assign) and "get_used_entities" in ast.unparse(s.value)]
    if len(call) != 1 or not isinstance(call[0].targets[0], ast.Tuple) or len(call[0].targets[0].elts) != 4:
        return [OR(id=oid, status=UNKNOWN, kind="S", target="ford.sourceform.FortranCodeUnit.correlate", detail="`a, b, c, d = mod.get_used_entities(extra)` not found")]
    names = [e.id for e in call[0].targets[0].elts]
    tables = ["self.all_procs", "self.all_absinterfaces", "self.all_types", "self.all_vars"]
    stmts = [ast.unparse(s) for s in loop.body if isinstance(s, ast.Expr)]
    out = []
    for tab, nm in zip(tables, names):
        ok = f"{tab}.update({nm})" in stmts
        r = OR(id=f"{oid}.{tab.split('.')[-1]}", status=PROVED if ok else REFUTED, kind="S", role="post", backend="ast", target="ford.sourceform.FortranCodeUnit.correlate",
               desc=f"`{tab}.update({nm})` is a statement of the USE loop: imported names overwrite inherited ones")
        if not ok:
            r.witness = {"statements_of_the_loop": stmts[:8]}
            r.detail = f"{tab} is not updated with the imported table by dict.update at the top level of the loop"
            if replay:
                r.replay = replay()
        out.append(r)
    return out


def own_tables_obligations(prop="C07", replay=None):
    """FortranCodeUnit.correlate updates the scope's four name tables in place (USE loop: `self.all_X.update(..)`), so each of them must be a dict of the scope's own: every
    assignment `self.all_X = <value>` in correlate constructs a new dict - `dict(..)`, a dict display / comprehension, or the local helper own_procs_hide(..) (under contract:
    returns a merged new dict) - never the host's table itself (`getattr(self.parent, "all_X", {})`, a name, an attribute).  Otherwise what one scope imports shows up in its
    host, its siblings and its host's submodules."""
    import ast
    from harness import loader
    from harness.core import OR, PROVED, REFUTED, UNKNOWN
    fn = loader.find_def("ford.sourceform", "FortranCodeUnit.correlate")
    tables = ["all_procs", "all_absinterfaces", "all_types", "all_vars"]
    out = []
    for tab in tables:
        sites = [n for n in ast.walk(fn) if isinstance(n, ast.Assign) and any(ast.unparse(t) == f"self.{tab}" for t in n.targets)]
        oid = f"{prop}.S.FortranCodeUnit.correlate.{tab}_is_a_dict_of_the_scope_s_own"
        if not sites:
            out.append(OR(id=oid, status=UNKNOWN, kind="S", target="ford.sourceform.FortranCodeUnit.correlate", detail=f"no assignment to self.{tab}"))
            continue
        bad = []
        for s in sites:
            v = s.value
            fresh = isinstance(v, (ast.Dict, ast.DictComp)) or (isinstance(v, ast.Call) and isinstance(v.func, ast.Name) and v.func.id in ("dict", "own_procs_hide"))
            if not fresh:
                bad.append((s.lineno, ast.unparse(s)[:100]))
        # the first assignment (the one every scope executes) must stand at the top level of the function
        first = min(sites, key=lambda s: s.lineno)
        if first not in fn.body:
            bad.append((first.lineno, "the first assignment is conditional"))
        r = OR(id=oid, status=REFUTED if bad else PROVED, kind="S", role="frame", backend="ast", target="ford.sourceform.FortranCodeUnit.correlate",
               desc=f"every `self.{tab} = ...` of correlate ({len(sites)} site(s)) builds a new dict; the first one is unconditional")
        if bad:
            r.witness = {"sites": bad}
            r.detail = f"line {bad[0][0]}: `{bad[0][1]}`: the scope shares a table with another scope, which the USE loop then writes into"
            if replay:
                r.replay = replay()
        out.append(r)
    return out


SCOPE_TABLES = ("all_procs", "all_absinterfaces", "all_types", "all_vars", "pub_procs", "pub_absints", "pub_types", "pub_vars")


def tables_only_grow(prop="C07", module="ford.sourceform", replay=None):
    """what a scope declares or imports stays visible in it: a name is removed from a scope's tables only by being *replaced* by a nearer declaration (dict assignment / update).
    No statement of the module deletes an entry (`del T[..]`, `T.pop(..)`, `T.popitem()`, `T.clear()`) of all_procs / all_absinterfaces / all_types / all_vars / pub_*: a removed
    entry (the interface of a dummy procedure, say) would let the host's entity of that name show through."""
    import ast
    from harness import loader
    from harness.core import OR, PROVED, REFUTED
    _, tree = loader.module_source(module)
    is_tab = lambda e: isinstance(e, ast.Attribute) and e.attr in SCOPE_TABLES
    bad = []
    for n in ast.walk(tree):
        if isinstance(n, ast.Delete) and any(isinstance(t, ast.Subscript) and is_tab(t.value) for t in n.targets):
            bad.append((n.lineno, ast.unparse(n)[:80]))
        if isinstance(n, ast.Call) and isinstance(n.func, ast.Attribute) and n.func.attr in ("pop", "popitem", "clear") and is_tab(n.func.value):
            bad.append((n.lineno, ast.unparse(n)[:80]))
    r = OR(id=f"{prop}.S.{module.split('.')[-1]}.scope_tables_only_grow", status=REFUTED if bad else PROVED, kind="S", role="frame", backend="ast", target=module,
           desc="no `del` / pop / popitem / clear on a scope's name tables anywhere in the module: a visible name is only ever replaced by a nearer one")
    if bad:
        r.witness = {"sites": bad}
        r.detail = f"line {bad[0][0]}: `{bad[0][1]}` removes a name from a scope's table: the host's entity of that name becomes visible instead"
        if replay:
            r.replay = replay()
    return [r]


def filter_public_obligation(prop="C06", replay=None):
    """what a module re-exports of the names it imported: the accessibility of a use-associated entity in the importing module belongs to its *local* name there (the key of the
    imported table: `use a, only: solve => solve_impl` followed by `public :: solve`), not to the name the entity was declared with.  Recognised form of the helper filter_public
    of FortranCodeUnit.correlate:  `{name: obj for name, obj in collection.items() if should_be_public(name)}` - key kept, value kept, the test applied to the key."""
    import ast
    from harness import loader
    from harness.core import OR, PROVED, REFUTED, UNKNOWN
    oid = f"{prop}.S.FortranCodeUnit.correlate.filter_public.accessibility_is_looked_up_by_the_local_name"
    fn = loader.find_def("ford.sourceform", "FortranCodeUnit.correlate")
    inner = [n for n in ast.walk(fn) if isinstance(n, ast.FunctionDef) and n.name == "filter_public"]
    if len(inner) != 1:
        return [OR(id=oid, status=UNKNOWN, kind="S", target="ford.sourceform.FortranCodeUnit.correlate", detail="helper filter_public not found")]
    rets = [r.value for r in ast.walk(inner[0]) if isinstance(r, ast.Return)]
    ok, why = False, "not a single dict comprehension"
    if len(rets) == 1 and isinstance(rets[0], ast.DictComp) and len(rets[0].generators) == 1:
        dc, g = rets[0], rets[0].generators[0]
        param = inner[0].args.args[0].arg
        if isinstance(g.target, ast.Tuple) and len(g.target.elts) == 2 and all(isinstance(x, ast.Name) for x in g.target.elts) and ast.unparse(g.iter) == f"{param}.items()":
            k, v = g.target.elts[0].id, g.target.elts[1].id
            tests = [ast.unparse(t) for t in g.ifs]
            ok = ast.unparse(dc.key) == k and ast.unparse(dc.value) == v and tests == [f"should_be_public({k})"]
            why = f"key `{ast.unparse(dc.key)}`, value `{ast.unparse(dc.value)}`, filter {tests}"
    r = OR(id=oid, status=PROVED if ok else UNKNOWN, kind="S", role="post", backend="ast", target="ford.sourceform.FortranCodeUnit.correlate",
           desc=f"filter_public returns `{{name: obj for name, obj in collection.items() if should_be_public(name)}}` ({why})")
    if not ok:
        hit = replay() if replay else None
        r.detail = "the re-export filter is not of the recognised form"
        if hit:
            r.status, r.replay = REFUTED, hit
            r.detail += ": entities re-exported under a new name are missing from (or leak into) what the module exports"
    return [r]

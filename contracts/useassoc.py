"""Engine A / B contracts for USE association (C06)."""
from __future__ import annotations
import z3
from pyvc.contract import *
from pyvc.values import *
from pyvc.engine import fresh
from contracts.heapmodel import FIELDS, class_model
from contracts.display import H, sel, lst, base

I, S, B = z3.IntSort(), z3.StringSort(), z3.BoolSort()
AH, AV, AS = z3.ArraySort(S, B), z3.ArraySort(S, I), z3.ArraySort(S, S)
# oracle fold over the exported names KS[0:k]
UH = z3.Function("USEFOLD_H", z3.SeqSort(S), I, B, AH, AS, AV, AH)
UV = z3.Function("USEFOLD_V", z3.SeqSort(S), I, B, AH, AS, AV, AV)


def use_step(h, v, only, uh, uv, exp_v, nm):
    """the standard's rule for one exported name nm (lower case) bound to exp_v[nm]:
       ONLY list: imported iff listed, under its local name;  no ONLY: imported under the local name if renamed, else under its own"""
    key = LOWER(nm)
    listed = z3.Select(uh, key)
    local = z3.If(listed, z3.Select(uv, key), key)
    take = z3.Or(z3.Not(only), listed)
    obj = z3.Select(exp_v, nm)
    return z3.If(take, z3.Store(h, local, True), h), z3.If(take, z3.Store(v, local, obj), v)


def use_unfold(ks, k, only, uh, uv, exp_v):
    a = (only, uh, uv, exp_v)
    h1, v1 = use_step(UH(ks, k, *a), UV(ks, k, *a), only, uh, uv, exp_v, ks[k])
    return [UH(ks, 0, *a) == z3.K(S, z3.BoolVal(False)), UV(ks, 0, *a) == z3.K(S, z3.IntVal(0)),
            UH(ks, k + 1, *a) == h1, UV(ks, k + 1, *a) == v1]


def used_objects(kind="pub_procs", prop="C06"):
    """decide half of FortranModule.get_used_entities: the closure used_objects(object_type, only) with the parsed clause
    (only, used_names) as ordinary inputs"""
    c = base(Contract("ford.sourceform", "FortranModule.get_used_entities.used_objects", prop))
    c.qual_suffix = kind
    c.param("object_type", TConst(kind))
    c.param("only", TBool())
    c.param("self", TRef("FortranModule"))
    c.param("used_names", TDict("str", "str"))       # free variable of the closure: remote (lower) -> local (lower)
    c.hints["dict"] = "ref"
    E = lambda v: V(v._e, v._e.entry)

    def setup(eng, path):
        eng.field_array(path, kind)
        path.heap._dmap(SDict(0, "str", "ref"))
        path.heap._dmap(SDict(0, "str", "str"))
    c.extra_setup.append(setup)

    def ctx(e):
        un = e.val("used_names")
        exp = SDict(sel(H(e, kind), e.self), "str", "ref")
        return (e.only, e.heap.dict_has(un), e.heap.dict_val(un), e.heap.dict_val(exp))
    c.requires("tables_are_lowercase", lambda v: z3.BoolVal(True))

    def inv(v):
        e = E(v)
        r = v.val("result")
        return z3.And(v.heap.dict_has(r) == UH(v.it.seq, v.k, *ctx(e)), v.heap.dict_val(r) == UV(v.it.seq, v.k, *ctx(e)))

    def frame(v):
        e = E(v)
        un = e.val("used_names")
        exp = SDict(sel(H(e, kind), e.self), "str", "ref")
        return z3.And(v.heap.dict_has(un) == e.heap.dict_has(un), v.heap.dict_val(un) == e.heap.dict_val(un),
                      v.heap.dict_has(exp) == e.heap.dict_has(exp), v.heap.dict_val(exp) == e.heap.dict_val(exp), H(v, kind) == H(e, kind))
    c.loop(0, invariants=[("result_is_oracle_fold", inv), ("frame", frame)], unfold=lambda v: use_unfold(v.it.seq, v.k, *ctx(E(v))),
           variant=lambda v: z3.Length(v.it.seq) - v.k)
    c.loop_result_seq = None

    def post(v0, res, v1):
        ks = c._ks[0]
        return z3.And(v1.heap.dict_has(res) == UH(ks, z3.Length(ks), *ctx(v0)), v1.heap.dict_val(res) == UV(ks, z3.Length(ks), *ctx(v0)))
    c._ks = [None]
    # the post needs the iteration sequence chosen by the loop: recorded through the invariant accessor
    inv0 = c.loops[0].invariants[0][1]

    def inv_rec(v):
        c._ks[0] = v.it.seq
        return inv0(v)
    c.loops[0].invariants[0] = ("result_is_oracle_fold", inv_rec)
    c.ensures("imports_are_the_standards_use_view", post)

    def fr(v0, res, v1):
        exp = SDict(sel(H(v0, kind), v0.self), "str", "ref")
        return z3.And(v1.heap.dict_has(exp) == v0.heap.dict_has(exp), v1.heap.dict_val(exp) == v0.heap.dict_val(exp), res.id > v0.heap.alloc0)
    c.ensures("exports_untouched_and_result_is_new", fr, role="frame")
    c.no_raise = True
    return c

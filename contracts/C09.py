"""C09 - internal links resolve and the output is relocatable.  Narrow claim: the URL builder (get_url) under contract, the link-guard /
page-creation implications between the templates and Documentation.__init__, the graph-node URL block; everything else (relurl, Markdown link
rewriting, fragments emitted by the templates, SVG, search index) only by the bounded whole-site link walk."""
from __future__ import annotations
import time
from harness.core import Task, OR, PROVED, REFUTED
from contracts import urls, navlinks, display
from contracts.common import *

PROP = "C09"


def _get_url():
    from bounded import c09
    c = urls.get_url(PROP)
    c.search_fn = c09.search
    return c


_get_url.__name__ = "get_url"


def _basenode():
    from bounded import c09
    c = display.basenode_url_block(PROP)
    c.search_fn = lambda: c09.site_search(shape_names=("hidden parent type",), options=[c09.OPTIONS[1]])
    return c


_basenode.__name__ = "basenode_url"


def nav_task():
    def run():
        from bounded import c09
        memo = {}

        def missing():      # one whole-site search serves every link whose page's creation statement was not found
            if "hit" not in memo:
                memo["hit"] = c09.site_search(options=c09.OPTIONS[:1] + c09.OPTIONS[3:])
            return memo["hit"]
        return navlinks.obligations(PROP, replay=c09.replay_shape, missing_replay=missing)
    return Task(f"{PROP}.S.navlinks", PROP, "templates", run)


def builder_task():
    def run():
        from bounded import c09
        t0 = time.time()
        hit = c09.search()
        r = OR(id=f"{PROP}.Bd.get_url.page_or_anchor", status=REFUTED if hit else PROVED, kind="Bd", role="bounded", target="ford.sourceform.FortranBase.get_url / get_dir",
               desc="every entity of generated projects: URL relative, at most one fragment, page URLs only for entities in a list Documentation.__init__ builds pages from, "
                    "anchors on the page of the nearest ancestor that has one", bound=f"{c09.count_cases()} project builds", cases=c09.count_cases(),
               seconds=time.time() - t0, backend="enumeration")
        if hit:
            r.replay, r.witness = hit, hit["input"]
        return [r]
    return Task(f"{PROP}.Bd.get_url", PROP, "get_url", run)


def site_task(shape):
    def run():
        from bounded import c09
        t0 = time.time()
        hit = c09.site_search(shape_names=(shape,))
        r = OR(id=f"{PROP}.Bd.site.{shape.replace(' ', '_')}", status=REFUTED if hit else PROVED, kind="Bd", role="bounded", target="ford.main (whole site)",
               desc=f"project shape '{shape}': every href / src / xlink:href of every written page and every url of the search index is relative, inside the output "
                    "directory, names a written file and an existing id", bound=f"{len(c09.OPTIONS)} option combinations (incl_src, search, graph, proc_internals, display, sort, page_dir)",
               cases=len(c09.OPTIONS), seconds=time.time() - t0, backend="enumeration")
        if hit:
            r.replay, r.witness = hit, hit["input"]
        return [r]
    return Task(f"{PROP}.Bd.site.{shape.replace(' ', '_')}", PROP, "site", run)


def build(tier, seed):
    from bounded import c09
    set_tier(tier)
    def norm_task():
        def run():
            from contracts import confine
            return [confine.normalise_path_resolves(PROP, "relative_url rewrites a link by replacing the *resolved* form of its target, which must occur in the link text: "
                                                    "output_dir / project_url have to be canonical already", c09.dotdot_output)]
        return Task(f"{PROP}.S.normalise_path", PROP, "ford.utils.normalise_path", run)

    def dotdot_task():
        def run():
            t0 = time.time()
            hit = c09.dotdot_output()
            r = OR(id=f"{PROP}.Bd.site.project_file_in_a_subdirectory", status=REFUTED if hit else PROVED, kind="Bd", role="bounded", target="ford.main (whole site)",
                   desc="the kitchen-sink project with its project file in docs/ and `src_dir: ../src`, `output_dir: ../site`: every link relative and live", bound="1 site", cases=1,
                   seconds=time.time() - t0, backend="enumeration")
            if hit:
                r.replay, r.witness = hit, hit["input"]
            return [r]
        return Task(f"{PROP}.Bd.site.dotdot", PROP, "site", run)
    tasks = [a_task(PROP, _get_url), a_task(PROP, _basenode), nav_task(), norm_task(), builder_task(), dotdot_task()] + [site_task(s) for s in c09.SHAPES]
    tasks.append(standin_task(PROP, "site.static_pages_in_search_index", lambda: c09.static_pages_in_search_index(), "ford.main (real run) + search database",
                              "a page tree two directories deep with search on: every static page is indexed under the address it is written at and every indexed address exists", "1 project", 1))
    tasks.append(Task(f"{PROP}.S.converter_reset", PROP, "ford.sourceform.FortranBase.markdown", lambda: __import__("contracts.docstrings", fromlist=["x"]).converter_reset_obligations(PROP)))
    tasks.append(Task(f"{PROP}.S.page_of_the_context", PROP, "MetaMarkdown.convert", lambda: __import__("contracts.links", fromlist=["x"]).page_of_the_context(PROP, lambda: c09.site_search(shape_names=("constructors local types and file links",), options=[c09.OPTIONS[2]]))))
    tasks.append(Task(f"{PROP}.S.favicon", PROP, "Documentation.writeout", lambda: __import__("contracts.plumbing", fromlist=["x"]).favicon_copy(PROP, lambda: c09.site_search(shape_names=("custom icon",), options=[c09.OPTIONS[0]]))))
    tasks.append(Task(f"{PROP}.S.source_copies", PROP, "Documentation.writeout", lambda: __import__("contracts.plumbing", fromlist=["x"]).source_copies(PROP, lambda: c09.site_search(shape_names=("capitalised file names",)))))
    meta = {
        "trusted_base": TRUSTED_BASE + ["jinja2's own parser (templates are read through jinja2.Environment().parse)", "cvc5 1.0.3 --strings-exp for the word-equation obligations of get_url"],
        "assumptions": PYVC_ASSUMPTIONS + [
            "get_url: get_dir(), ident and anchor are uninterpreted pure functions of the entity whose values contain neither '/', '..' nor '#' (NameSelector / "
            "anchor construction are not under this contract); the recursive call self.parent.get_url() is assumed to satisfy the contract being proved "
            "(induction on the finite parent chain; acyclicity of the chain is assumed)",
            "templates: the globals incl_src / search / graph are the settings of the same name (Documentation passes asdict(settings)); atoms the translation does "
            "not interpret are unconstrained (proofs stay sound, counter-models are replayed)",
            "page existence for entity pages is not proved: writeout / render failures (Jinja TemplateError) are outside the contract",
        ],
        "functions_under_contract": fn_meta([("ford.sourceform", "FortranBase.get_url", None), ("ford.graphs", "BaseNode.__init__", "block contract: the statements that set attribs['URL']"),
                                             ("ford.output", "Documentation.__init__", "only the `if <cond>: self.lists.append(<ListPage>)` statements are read")]),
        "unverified_surroundings": ["ford.output.relative_url (relurl filter)", "ford._markdown RelativeLinksTreeProcessor / MetaMarkdown.convert", "fragments (ids) emitted by the templates",
                                    "ford.tipue_search", "graphviz SVG output", "static page tree URLs (see C17)"],
        "explanation": "get_url is proved, for every entity and parent chain, to return exactly '<dir>/<ident>.html' for an entity with a page directory, "
                       "'<page of the parent>#<anchor>' for variable-like entities, None otherwise; the result is relative and carries at most one fragment. "
                       "Every literal link to a list page in the templates is proved to be guarded by a condition that implies the creation condition of that "
                       "page in Documentation.__init__ (linear integer arithmetic over list lengths). Graph nodes carry a URL only for visible entities.",
    }
    return tasks, meta

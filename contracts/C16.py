"""C16 - links into an externalised project.  Narrow claim: which module a USE is bound to, the search order of [[...]], URL re-basing of the
export/import pair, containment of a bad description; everything else by real export/import runs (bounded)."""
from __future__ import annotations
import time
from harness.core import Task, OR, PROVED, REFUTED
from contracts import external, links
from contracts.common import *

PROP = "C16"


def _binding():
    from bounded import c16
    c = external.find_used_modules_binding(PROP)
    c.search_fn = lambda: c16.search(("end_to_end",))
    return c


def _rebase():
    from bounded import c16
    c = external.dict2obj_rebase(PROP)
    c.search_fn = lambda: c16.search(("remote", "end_to_end"))
    return c


def _one():
    from bounded import c16
    c = external.load_external_one(PROP)
    c.search_fn = lambda: c16.search(("remote", "broken", "absolute"))
    return c


def _fil():
    return links.find_in_list(PROP)


_binding.__name__, _rebase.__name__, _one.__name__, _fil.__name__ = "find_used_modules", "dict2obj_rebase", "load_external_one", "find_in_list"


def s_task():
    return Task(f"{PROP}.S.structural", PROP, "structural", lambda: external.structural(PROP) + external.urljoin_lemma(PROP))


def bd_task(part, desc, bound):
    def run():
        from bounded import c16
        t0 = time.time()
        hit = c16.search((part,))
        r = OR(id=f"{PROP}.Bd.projects.{part}", status=REFUTED if hit else PROVED, kind="Bd", role="bounded", target="ford.main on project A (externalize) then project B (external)",
               desc=desc, bound=bound, cases=1, seconds=time.time() - t0, backend="enumeration")
        if hit:
            r.replay, r.witness = hit, hit["input"]
        return [r]
    return Task(f"{PROP}.Bd.{part}", PROP, part, run)


def build(tier, seed):
    from bounded import c16
    set_tier(tier)
    def _host():
        from contracts import scoping
        c = scoping.host_block(PROP)
        c.search_fn = lambda: c16.search(("end_to_end",))
        return c
    _host.__name__ = "host_block"

    def _href():
        from contracts import links
        return links.href_obligations(PROP, lambda: c16.search(("end_to_end",)))
    tasks = [standin_task(PROP, "parser.access_product", lambda: __import__("bounded.c04", fromlist=["x"]).search(), "ford.sourceform (real parser)",
                          "what a module of A makes accessible (protected variables included) is what its exported description lists and B can link to", "access product of C04"),
             standin_task(PROP, "pipeline.use_forms", lambda: __import__("bounded.c06", fromlist=["x"]).search(), "ford.fortran_project.Project.correlate (real pipeline)",
                          "modules a <- b <- c: every USE form (renames, ONLY lists) x b's default access: the names each scope sees are the standard's (a renamed-away name does not shadow the scope's own entity)",
                          "generated three-module projects", 1),
             a_task(PROP, _binding), a_task(PROP, _rebase), a_task(PROP, _one), a_task(PROP, _fil), a_task(PROP, _host), s_task(),
             Task(f"{PROP}.S.casefold.names", PROP, "comparisons of entity names", lambda: __import__("contracts.casefold", fromlist=["x"]).name_obligations(PROP, replay=lambda: c16.search(("declarations",)))),
             __import__("contracts.C15", fromlist=["x"]).argparse_task(PROP, only=("externalize",), replay=lambda: c16.command_line_externalize()),
             Task(f"{PROP}.S.load_external", PROP, "load_external_modules", lambda: external.one_bad_project_costs_only_its_own_links(PROP, lambda: c16.search(("broken",)))),
             Task(f"{PROP}.S.filter_public", PROP, "FortranCodeUnit.correlate", lambda: __import__("contracts.useassoc", fromlist=["x"]).filter_public_obligation(PROP, lambda: c16.search(("end_to_end",)))),
             Task(f"{PROP}.S.href", PROP, "FordLinkProcessor.convert_link", _href),
             Task(f"{PROP}.S.dict2obj", PROP, "dict2obj", lambda: external.dict2obj_constructs(PROP, lambda: c16.search(("same_names",)))),
             bd_task("end_to_end", "A exported, B built against it through a relative local path: modules.json lists exactly A's modules and public entities with URLs that exist; every "
                     "link of B into A (use, extends, [[..]], call graph) exists there and is the page of the linked name; B's own module / type / procedure win name clashes", "1 project pair"),
             bd_task("broken", "missing, non-JSON, truncated, binary, mis-shaped external descriptions: B's run succeeds and writes its own pages", f"{len(c16.BROKEN)} descriptions"),
             bd_task("declarations", "B declares a deferred binding through an abstract interface of A and extends a type of A with bindings, under every `sort` option: B's run "
                     "succeeds and its links into A exist", "6 sort options"),
             bd_task("same_names", "A has two modules with a procedure of the same name and two types with equally named components and bindings; B uses the second module: its links "
                     "lead to the second module's entities and never to the namesakes", "1 project pair"),
             bd_task("hide_undoc", "A documented with hide_undoc (its undocumented public entities have no pages): every link of B into A exists", "1 project pair"),
             bd_task("absolute", "external project given by an absolute local path", "1 project pair"),
             bd_task("remote", "remote external project (urlopen replaced): modules.json fetched from <url>/modules.json and every entity URL is <url>/<relative URL in A>", "4 spellings of the URL")]
    meta = {
        "trusted_base": TRUSTED_BASE + ["cvc5 1.0.3 --strings-exp for z3's unknowns", "CPython's exception class hierarchy (handler matching is decided with issubclass on the real classes)"],
        "assumptions": PYVC_ASSUMPTIONS + [
            "urljoin and pathlib's `/` are uninterpreted pure functions in the proofs; that urljoin(base + '/', rel) == base + '/' + rel is checked by enumeration only (bounded lemma)",
            "library raise sets are assumed (listed in functions_under_contract of load_external_modules): urlopen {URLError, ValueError, HTTPException}, read {OSError, HTTPException}, "
            "decode {UnicodeDecodeError}, json.loads {JSONDecodeError}, read_text {OSError, UnicodeDecodeError}, resolve {OSError}; a JSON value of unknown shape raises only "
            "KeyError / TypeError / AttributeError when used",
            "that A's get_url() values are the pages A writes is C09's claim, not repeated here",
        ],
        "functions_under_contract": fn_meta([("ford.fortran_project", "find_used_modules", "block contract: the inner search loop"),
                                             ("ford.external_project", "dict2obj", "block contract: the URL re-basing statement; the recursive construction of entities is not under contract"),
                                             ("ford.external_project", "load_external_modules", "block contract: the body of the loop over external projects; print calls"),
                                             ("ford.sourceform", "_find_in_list", None)]),
        "unverified_surroundings": ["obj2dict's recursion over ATTRIBUTES (which entities are exported) - bounded only", "dict2obj's recursive construction", "templates that render external links",
                                    "ford.graphs (external nodes)", "settings.extra_mods"],
        "explanation": "Proved for all inputs: a used module name is bound to the first match in `modules ++ external_modules` (so a local module always wins); an exported "
                       "'./<url>' is imported as base (+) <url>; for a remote project dict2obj receives the slash-terminated base from which modules.json was fetched; no exception "
                       "of the declared library raise sets escapes the handling of one external project. The search order of [[name]] puts local collections first (structural).",
    }
    return tasks, meta

"""C18 - rendered declarations say what the source says and stay inert text.  Narrow claim: the display strings full_type / full_declaration under
contract, the escape filter at every template site that prints an initial value or bind name; everything else by the differential bounded run."""
from __future__ import annotations
import time
from harness.core import Task, OR, PROVED, REFUTED
from contracts import declarations
from contracts.common import *

PROP = "C18"
KNOWN_EXPR = "pa4+pb4"          # the relational expression placed in kind / len / dimension positions (known finding C18-type-parameter-markup)


def _ft():
    from bounded import c18
    c = declarations.full_type(PROP)
    c.search_fn = c18.decl_search
    return c


def _fd():
    from bounded import c18
    c = declarations.full_declaration(PROP)
    c.search_fn = c18.decl_search
    return c


_ft.__name__, _fd.__name__ = "full_type", "full_declaration"


def bd_task():
    def run():
        from bounded import c18
        out = []
        t0 = time.time()
        main = [k for k in list(c18.LITERALS) + list(c18.EXPRS) if k != KNOWN_EXPR]
        hit = c18.search([set(main)])
        r = OR(id=f"{PROP}.Bd.site.literals_and_operators", status=REFUTED if hit else PROVED, kind="Bd", role="bounded", target="ford.main (whole site), every written page",
               desc="differential rendering: HTML-/Markdown-significant literals and relational operators in initial values, array constructors, component defaults, namelist "
                    "members and bind names leave the element structure unchanged and are shown as written",
               bound=f"{len(main)} contents, 1 project, 2 renderings", cases=len(main), seconds=time.time() - t0, backend="enumeration")
        if hit:
            r.replay, r.witness = hit, hit["input"]
        out.append(r)
        t0 = time.time()
        hit = c18.search([{KNOWN_EXPR}])
        k = OR(id=f"{PROP}.Bd.site.relational_operator_in_type_parameters", status=REFUTED if hit else PROVED, kind="Bd", role="bounded", target="ford/templates/macros.html (full_type, dimension, attribs printed raw)",
               desc="a relational operator inside a kind / len / dimension expression must not be parsed as markup", bound="1 expression in 3 positions", cases=1,
               seconds=time.time() - t0, backend="enumeration", known="C18-type-parameter-markup")
        if hit:
            k.replay, k.witness = hit, hit["input"]
        out.append(k)
        t0 = time.time()
        hit = c18.decl_search() or c18.heading_cases() or c18.pages_are_utf8() or (lambda b: {"confirmed": True, "input": {"files": __import__("bounded.c06", fromlist=["x"]).NML_FILES}, "actual": b, "expected": "namelist rows show the variable the name denotes in the scope", "how": "real pipeline"} if b else None)(__import__("bounded.c06", fromlist=["x"]).namelist_members())
        d = OR(id=f"{PROP}.Bd.parser.display_strings", status=REFUTED if hit else PROVED, kind="Bd", role="bounded", target="ford.sourceform.line_to_variables / parse_type",
               desc="kind, len, prototype, attributes and dimension of parsed declarations are the source text (expressions kept whole)", bound=f"{len(c18.DECLS)} declarations",
               cases=len(c18.DECLS), seconds=time.time() - t0, backend="enumeration")
        if hit:
            d.replay, d.witness = hit, hit["input"]
        out.append(d)
        return out
    return Task(f"{PROP}.Bd.site", PROP, "site", run)


def _cont():
    from contracts import readerblocks
    from bounded import c02
    c = readerblocks.continuation(PROP)
    c.search_fn = lambda: c02.search(0)
    return c


_cont.__name__ = "continuation_block"


def _imported_flags():
    b = __import__("bounded.c16", fromlist=["x"]).imported_binding_flags()
    return {"confirmed": True, "input": "A: type shape_t with `procedure :: area`, a deferred binding and a generic; B: `type, extends(shape_t) :: box_t`", "actual": b,
            "expected": "the declarations of the inherited bindings as in A's source", "how": "A dumped with dump_modules, B built against it"} if b else None


def build(tier, seed):
    set_tier(tier)
    tasks = [standin_task(PROP, "parser.spelling_equivalence", lambda: __import__("bounded.c01", fromlist=["x"]).search(), "ford.sourceform (real parser)",
                          "the entity tree the declarations are rendered from: enumerator values, results matched to their declarations in any letter case", "model programs of C01"),
             Task(f"{PROP}.S.casefold.names", PROP, "comparisons of entity names", lambda: __import__("contracts.casefold", fromlist=["x"]).name_obligations(PROP)),
             standin_task(PROP, "projects.imported_binding_flags", _imported_flags, "ford.external_project.obj2dict / dict2obj (real)",
                          "bindings a type of B inherits from a type of an external project are declared as in that project's source (generic / deferred flags after the round trip through modules.json)", "1 project pair"),
             Task(f"{PROP}.S.lower", PROP, "FortranContainer.__init__", lambda: __import__("contracts.plumbing", fromlist=["x"]).lower_after_masking(PROP, lambda: __import__("bounded.c18", fromlist=["x"]).decl_search())),
             a_task(PROP, _ft), a_task(PROP, _fd), Task(f"{PROP}.S.templates", PROP, "templates", lambda: declarations.template_escapes(PROP) + declarations.literal_reinsertion_is_last(PROP)),
             Task(f"{PROP}.S.values", PROP, "name = value pairs", lambda: __import__("contracts.operands", fromlist=["x"]).value_obligations(PROP, replay=lambda: __import__("bounded.c18", fromlist=["x"]).decl_search())),
             Task(f"{PROP}.S.default_not_shared", PROP, "mutable default arguments", lambda: __import__("contracts.plumbing", fromlist=["x"]).mutable_defaults_not_shared(PROP, ("ford.sourceform",), lambda: __import__("bounded.c01", fromlist=["x"]).implicit_attributes())),
             a_task(PROP, _cont),
             Task(f"{PROP}.B.decl_patterns", PROP, "KIND_RE / LEN_RE / DOUBLE_*_RE", lambda: declarations.rx_obligations(PROP)), bd_task()]
    meta = {
        "trusted_base": TRUSTED_BASE + ["jinja2's own parser", "Python's html.parser as the reader of the written pages (bounded stand-in only)"],
        "assumptions": PYVC_ASSUMPTIONS + [
            "full_type / full_declaration: Optional[str] fields encoded with '' for None; proto as a list of display strings; self.full_type inside full_declaration is the "
            "uninterpreted callee; ''.join is specified by its two defining equations",
            "that kind / strlen / attribs / dimension / initial hold the source text is parse_type's and line_to_variables' job: bounded stand-in only (10 declarations)",
            "jinja2's `e` filter escapes &, <, >, ' and \" (library contract)",
        ],
        "functions_under_contract": fn_meta([("ford.sourceform", "FortranVariable.full_type", None), ("ford.sourceform", "FortranVariable.full_declaration", None)]),
        "unverified_surroundings": ["parse_type, line_to_variables (literal re-insertion, NBSP, backslash doubling)", "_parse_bind_C", "the templates other than the escape filter at the listed sites",
                                    "relurl filter on full_type (BeautifulSoup)"],
        "explanation": "Proved for every variable: full_type is the type followed by '(kind=K, len=L)' (the parts present) or '(prototype(parameters))', and full_declaration is "
                       "full_type followed by ', <part>' for every attribute, the dimension and 'parameter', in that order. Every printed template expression that reads an initial "
                       "value or a bind name ends in the escape filter, and the environment does not auto-escape. One known finding: relational operators in kind / len / dimension "
                       "expressions are printed raw.",
    }
    return tasks, meta

"""Letter-case independence of keyword tests on captured text (C01).

FORD's statement patterns are compiled with re.IGNORECASE, so a captured group keeps the spelling of the source.  Every comparison of
captured text with a lower-case keyword literal must therefore fold the case first.  The obligation is syntactic and is generated for every
comparison found in the current source:

    for each function f of the module
        M(f) = names bound to a match object in f (parameters annotated `re.Match`, targets of `x = P.match(..)` / `x := P.search(..)` /
               fullmatch, loop targets of finditer)
        T(f) = names assigned from captured text that has not been case-folded (`typestr = line.group(1)`), closed under re-assignment
    for each Compare(==, !=, in, not in) in f with a literal operand L (a str constant with a lower-case letter, or a list / tuple / set of them)
        and another operand E that reads captured text (`m[..]`, `m.group(..)` with m in M(f), or a name in T(f)):
            E reaches the comparison only through .lower() / .casefold()          (PROVED)   otherwise REFUTED

A refuted site is replayed by running the real parser on the model programs with upper-cased keywords (bounded.c01)."""
from __future__ import annotations
import ast
from harness.core import OR, PROVED, REFUTED, UNKNOWN
from harness import loader

FOLDS = ("lower", "casefold")
MATCHERS = ("match", "search", "fullmatch")


def _bindings(fn):
    for n in ast.walk(fn):
        if isinstance(n, ast.NamedExpr) and isinstance(n.target, ast.Name):
            yield n.target.id, n.value
        elif isinstance(n, ast.Assign) and len(n.targets) == 1 and isinstance(n.targets[0], ast.Name):
            yield n.targets[0].id, n.value


def _calls(val, attrs):
    return any(isinstance(c, ast.Call) and isinstance(c.func, ast.Attribute) and c.func.attr in attrs for c in ast.walk(val))


def _match_names(fn):
    names = set()
    for a in fn.args.args + fn.args.kwonlyargs:
        if a.annotation is not None and "Match" in ast.unparse(a.annotation):
            names.add(a.arg)
    for n in ast.walk(fn):
        if isinstance(n, (ast.For, ast.comprehension)) and isinstance(n.target, ast.Name) and _calls(n.iter, ("finditer",)):
            names.add(n.target.id)
    for name, val in _bindings(fn):
        # `x := P.match(line) or Q.match(line)` binds a match object as well
        if _calls(val, MATCHERS):
            names.add(name)
    return names


def _is_capture(n, M, T):
    if isinstance(n, ast.Name) and n.id in T:
        return True
    if isinstance(n, ast.Subscript) and isinstance(n.value, ast.Name) and n.value.id in M:
        return True
    if isinstance(n, ast.Call) and isinstance(n.func, ast.Attribute) and n.func.attr == "group" and isinstance(n.func.value, ast.Name) and n.func.value.id in M:
        return True
    return False


def _unfolded_capture(expr, M, T, folded=False):
    """a captured-text read inside expr that is not under a case fold -> its source text, else None"""
    if isinstance(expr, ast.Call) and isinstance(expr.func, ast.Attribute) and expr.func.attr in FOLDS:
        return _unfolded_capture(expr.func.value, M, T, True)
    if _is_capture(expr, M, T):
        return None if folded else ast.unparse(expr)
    # string methods that keep the letters (strip, replace, slicing, ...) pass the fold state through
    for ch in ast.iter_child_nodes(expr):
        if isinstance(ch, ast.expr):
            r = _unfolded_capture(ch, M, T, folded)
            if r:
                return r
    return None


def _tainted_names(fn, M):
    T = set()
    while True:
        new = set()
        for name, val in _bindings(fn):
            if name in M or name in T:
                continue
            # plain string-valued reads only: m[..], m.group(..), possibly through strip() / slices / concatenation
            if any(isinstance(x, (ast.Compare, ast.BoolOp, ast.ListComp, ast.GeneratorExp, ast.Dict, ast.Lambda)) for x in ast.walk(val)):
                continue
            if _calls(val, MATCHERS + ("split", "finditer", "findall", "paren_split", "get_parens", "index", "find", "len")):
                continue
            if _unfolded_capture(val, M, T):
                new.add(name)
        if not new:
            return T
        T |= new


def _lower_literal(n):
    if isinstance(n, ast.Constant) and isinstance(n.value, str):
        return any(ch.islower() for ch in n.value)
    if isinstance(n, (ast.List, ast.Tuple, ast.Set)):
        return bool(n.elts) and all(isinstance(e, ast.Constant) and isinstance(e.value, str) for e in n.elts) and any(_lower_literal(e) for e in n.elts)
    return False


def obligations(prop, module="ford.sourceform", replay=None):
    _, tree = loader.module_source(module)
    out, seen = [], 0
    for fn in [x for x in ast.walk(tree) if isinstance(x, (ast.FunctionDef, ast.AsyncFunctionDef))]:
        M = _match_names(fn)
        if not M:
            continue
        T = _tainted_names(fn, M)
        k = 0
        for c in ast.walk(fn):
            if not isinstance(c, ast.Compare):
                continue
            ops = [c.left] + list(c.comparators)
            if not any(_lower_literal(o) for o in ops):
                continue
            if not all(isinstance(o, (ast.Eq, ast.NotEq, ast.In, ast.NotIn)) for o in c.ops):
                continue
            reads = [o for o in ops if not _lower_literal(o) and any(_is_capture(x, M, T) for x in ast.walk(o))]
            if not reads:
                continue
            seen += 1
            bad = None
            for o in reads:
                bad = bad or _unfolded_capture(o, M, T)
            r = OR(id=f"{prop}.S.casefold.{fn.name}.site{k}", status=REFUTED if bad else PROVED, kind="S", role="post", backend="ast", target=f"{module}.{fn.name}",
                   desc=f"`{ast.unparse(c)[:80]}` (line {c.lineno}): text captured by a case-insensitive pattern is case-folded before it is compared with a keyword")
            if bad:
                r.witness = {"comparison": ast.unparse(c), "line": c.lineno, "unfolded": bad}
                r.detail = f"{bad} keeps the spelling of the source: an upper-case keyword takes the other branch"
                if replay:
                    r.replay = replay()
            out.append(r)
            k += 1
    if seen == 0:
        out.append(OR(id=f"{prop}.S.casefold.anchor", status=UNKNOWN, kind="S", target=module, detail="no comparison of captured text with a keyword literal found (code restructured?)"))
    return out

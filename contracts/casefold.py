"""Letter-case independence of keyword tests on captured text (C01).

FORD's statement patterns are compiled with re.IGNORECASE, so a captured group keeps the spelling of the source.  Every comparison of
captured text with a lower-case keyword literal must therefore fold the case first.  The obligation is syntactic and is generated for every
comparison found in the current source:

    for each function f of the module
        M(f) = names bound to a match object in f (parameters annotated `re.Match`, targets of `x = P.match(..)` / `x := P.search(..)` /
               fullmatch, loop targets of finditer)
        T(f) = names assigned from captured text that has not been case-folded (`typestr = line.group(1)`), closed under re-assignment
    for each Compare(==, !=, in, not in) in f with a literal operand L (a str constant with a lower-case letter, or a list / tuple / set of them)
        and another operand E that reads captured text (`m[..]`, `m.group(..)` with m in M(f), or a name in T(f)):
            E reaches the comparison only through .lower() / .casefold()          (PROVED)   otherwise REFUTED

A refuted site is replayed by running the real parser on the model programs with upper-cased keywords (bounded.c01)."""
from __future__ import annotations
import ast
from harness.core import OR, PROVED, REFUTED, UNKNOWN
from harness import loader

FOLDS = ("lower", "casefold")
MATCHERS = ("match", "search", "fullmatch")


def _bindings(fn):
    for n in ast.walk(fn):
        if isinstance(n, ast.NamedExpr) and isinstance(n.target, ast.Name):
            yield n.target.id, n.value
        elif isinstance(n, ast.Assign) and len(n.targets) == 1 and isinstance(n.targets[0], ast.Name):
            yield n.targets[0].id, n.value


def _calls(val, attrs):
    return any(isinstance(c, ast.Call) and isinstance(c.func, ast.Attribute) and c.func.attr in attrs for c in ast.walk(val))


def _match_names(fn):
    names = set()
    for a in fn.args.args + fn.args.kwonlyargs:
        if a.annotation is not None and "Match" in ast.unparse(a.annotation):
            names.add(a.arg)
    for n in ast.walk(fn):
        if isinstance(n, (ast.For, ast.comprehension)) and isinstance(n.target, ast.Name) and _calls(n.iter, ("finditer",)):
            names.add(n.target.id)
    for name, val in _bindings(fn):
        # `x := P.match(line) or Q.match(line)` binds a match object as well
        if _calls(val, MATCHERS):
            names.add(name)
    return names


def _is_capture(n, M, T):
    if isinstance(n, ast.Name) and n.id in T:
        return True
    if isinstance(n, ast.Subscript) and isinstance(n.value, ast.Name) and n.value.id in M:
        return True
    if isinstance(n, ast.Call) and isinstance(n.func, ast.Attribute) and n.func.attr == "group" and isinstance(n.func.value, ast.Name) and n.func.value.id in M:
        return True
    return False


def _unfolded_capture(expr, M, T, folded=False):
    """a captured-text read inside expr that is not under a case fold -> its source text, else None"""
    if isinstance(expr, ast.Call) and isinstance(expr.func, ast.Attribute) and expr.func.attr in FOLDS:
        return _unfolded_capture(expr.func.value, M, T, True)
    if _is_capture(expr, M, T):
        return None if folded else ast.unparse(expr)
    # the value of `a if t else b` is a or b: the test only decides which (`x.lower() if x else None` is folded)
    if isinstance(expr, ast.IfExp):
        return _unfolded_capture(expr.body, M, T, folded) or _unfolded_capture(expr.orelse, M, T, folded)
    # string methods that keep the letters (strip, replace, slicing, ...) pass the fold state through
    for ch in ast.iter_child_nodes(expr):
        if isinstance(ch, ast.expr):
            r = _unfolded_capture(ch, M, T, folded)
            if r:
                return r
    return None


def _tainted_names(fn, M):
    T = set()
    while True:
        new = set()
        for name, val in _bindings(fn):
            if name in M or name in T:
                continue
            # plain string-valued reads only: m[..], m.group(..), possibly through strip() / slices / concatenation
            if any(isinstance(x, (ast.Compare, ast.BoolOp, ast.ListComp, ast.GeneratorExp, ast.Dict, ast.Lambda)) for x in ast.walk(val)):
                continue
            if _calls(val, MATCHERS + ("split", "finditer", "findall", "paren_split", "get_parens", "index", "find", "len")):
                continue
            if _unfolded_capture(val, M, T):
                new.add(name)
        if not new:
            return T
        T |= new


def _lower_literal(n):
    if isinstance(n, ast.Constant) and isinstance(n.value, str):
        return any(ch.islower() for ch in n.value)
    if isinstance(n, (ast.List, ast.Tuple, ast.Set)):
        return bool(n.elts) and all(isinstance(e, ast.Constant) and isinstance(e.value, str) for e in n.elts) and any(_lower_literal(e) for e in n.elts)
    return False


def obligations(prop, module="ford.sourceform", replay=None):
    _, tree = loader.module_source(module)
    out, seen = [], 0
    for fn in [x for x in ast.walk(tree) if isinstance(x, (ast.FunctionDef, ast.AsyncFunctionDef))]:
        M = _match_names(fn)
        if not M:
            continue
        T = _tainted_names(fn, M)
        k = 0
        for c in ast.walk(fn):
            if not isinstance(c, ast.Compare):
                continue
            ops = [c.left] + list(c.comparators)
            if not any(_lower_literal(o) for o in ops):
                continue
            if not all(isinstance(o, (ast.Eq, ast.NotEq, ast.In, ast.NotIn)) for o in c.ops):
                continue
            reads = [o for o in ops if not _lower_literal(o) and any(_is_capture(x, M, T) for x in ast.walk(o))]
            if not reads:
                continue
            seen += 1
            bad = None
            for o in reads:
                bad = bad or _unfolded_capture(o, M, T)
            r = OR(id=f"{prop}.S.casefold.{fn.name}.site{k}", status=REFUTED if bad else PROVED, kind="S", role="post", backend="ast", target=f"{module}.{fn.name}",
                   desc=f"`{ast.unparse(c)[:80]}` (line {c.lineno}): text captured by a case-insensitive pattern is case-folded before it is compared with a keyword")
            if bad:
                r.witness = {"comparison": ast.unparse(c), "line": c.lineno, "unfolded": bad}
                r.detail = f"{bad} keeps the spelling of the source: an upper-case keyword takes the other branch"
                if replay:
                    r.replay = replay()
            out.append(r)
            k += 1
    if seen == 0:
        out.append(OR(id=f"{prop}.S.casefold.anchor", status=UNKNOWN, kind="S", target=module, detail="no comparison of captured text with a keyword literal found (code restructured?)"))
    return out


FILE_NAME_FUNCTIONS = {"find_all_files"}


def _is_fold_call(e):
    return isinstance(e, ast.Call) and isinstance(e.func, ast.Attribute) and e.func.attr in FOLDS


def name_obligations(prop, modules=("ford.sourceform", "ford.fortran_project"), replay=None):
    """Fortran names are case-insensitive and FORD keeps the spelling of the declaration in `entity.name`: every equality test between an entity's name and another
    name folds the case of *both* sides (`a.name.lower() == b.lower()`); a membership test in one of the lower-keyed name tables folds the name.  Generated for every
    comparison in the current source in which `<expr>.name` occurs and no side is a literal."""
    out = []
    # `.name` of a pathlib path (`p.parent.name`, `Path(x).name`, `p.resolve().name`) is a file name, not a Fortran name - whatever function it stands in
    PATHISH = ("parent", "parents", "stem", "suffix")
    is_path_name = lambda n: any((isinstance(x, ast.Attribute) and x.attr in PATHISH) or (isinstance(x, ast.Call) and ast.unparse(x.func).split(".")[-1] in ("Path", "resolve", "absolute", "with_suffix", "relative_to"))
                                 for x in ast.walk(n.value))
    has_name = lambda e: any(isinstance(n, ast.Attribute) and n.attr == "name" and not is_path_name(n) for n in ast.walk(e))
    for module in modules:
        _, tree = loader.module_source(module)
        for fn in [x for x in ast.walk(tree) if isinstance(x, (ast.FunctionDef, ast.AsyncFunctionDef))]:
            if fn.name in FILE_NAME_FUNCTIONS:
                continue            # `.name` of a pathlib path: file names, not Fortran names
            # local names that hold an already folded name (`dependency_name = dependency[0].lower()`)
            folded = {t.id for n in ast.walk(fn) if isinstance(n, ast.Assign) and len(n.targets) == 1 and isinstance((t := n.targets[0]), ast.Name) and _is_fold_call(n.value)}
            is_fold = lambda e, folded=folded: _is_fold_call(e) or (isinstance(e, ast.Name) and e.id in folded)
            k = 0
            for c in ast.walk(fn):
                if not (isinstance(c, ast.Compare) and len(c.ops) == 1 and isinstance(c.ops[0], (ast.Eq, ast.NotEq, ast.In, ast.NotIn))):
                    continue
                l, r = c.left, c.comparators[0]
                if not (has_name(l) or has_name(r)) or isinstance(l, ast.Constant) or isinstance(r, ast.Constant) or isinstance(r, (ast.List, ast.Tuple, ast.Set)):
                    continue
                if isinstance(c.ops[0], (ast.In, ast.NotIn)):
                    if not has_name(l):
                        continue
                    ok = is_fold(l)
                else:
                    # identity-like comparisons of two entities' attributes other than names (x.name == y.name where both are the same kind of string) still need the fold
                    ok = is_fold(l) and is_fold(r)
                r_ = OR(id=f"{prop}.S.casefold.names.{module.split('.')[-1]}.{fn.name}.site{k}", status=PROVED if ok else REFUTED, kind="S", role="post", backend="ast", target=f"{module}.{fn.name}",
                        desc=f"`{ast.unparse(c)[:80]}` (line {c.lineno}): names are compared with the case folded on both sides")
                if not ok:
                    r_.witness = {"comparison": ast.unparse(c), "line": c.lineno}
                    r_.detail = "an entity's name keeps the spelling of its declaration: a reference spelt in another letter case does not match"
                    if replay:
                        r_.replay = replay()
                out.append(r_)
                k += 1
    if not out:
        out.append(OR(id=f"{prop}.S.casefold.names.anchor", status=UNKNOWN, kind="S", target=",".join(modules), detail="no comparison of entity names found"))
    return out


def attribute_obligations(prop, module="ford.sourceform", replay=None):
    """attributes of a declared entity keep the spelling of the source (`REAL, EXTERNAL :: f`): a test for an attribute word on another entity's `attribs` folds the case of
    the list (`"external" in [a.lower() for a in v.attribs]`).  (`self.attribs` of a procedure is produced lower-cased by _list_of_procedure_attributes and is exempt.)"""
    _, tree = loader.module_source(module)
    out = []
    for fn in [x for x in ast.walk(tree) if isinstance(x, (ast.FunctionDef, ast.AsyncFunctionDef))]:
        k = 0
        for c in ast.walk(fn):
            if not (isinstance(c, ast.Compare) and len(c.ops) == 1 and isinstance(c.ops[0], (ast.In, ast.NotIn)) and isinstance(c.left, ast.Constant) and isinstance(c.left.value, str)):
                continue
            r = c.comparators[0]
            reads = [n for n in ast.walk(r) if isinstance(n, ast.Attribute) and n.attr == "attribs" and not (isinstance(n.value, ast.Name) and n.value.id == "self")]
            if not reads:
                continue
            ok = not (isinstance(r, ast.Attribute)) and any(_is_fold_call(n) for n in ast.walk(r))
            o = OR(id=f"{prop}.S.casefold.attribs.{fn.name}.site{k}", status=PROVED if ok else REFUTED, kind="S", role="post", backend="ast", target=f"{module}.{fn.name}",
                   desc=f"`{ast.unparse(c)[:90]}` (line {c.lineno}): an attribute word is looked up among case-folded attributes")
            if not ok:
                o.witness = {"comparison": ast.unparse(c), "line": c.lineno}
                o.detail = "attributes keep the letter case of the source: an upper-case attribute is not found"
                if replay:
                    o.replay = replay()
            out.append(o)
            k += 1
    if not out:
        out.append(OR(id=f"{prop}.S.casefold.attribs.anchor", status=UNKNOWN, kind="S", target=module, detail="no attribute membership test on another entity's attribs found"))
    return out


def prefix_obligations(prop, module="ford.sourceform", replay=None):
    """keyword tests written as `X.startswith(<keyword literal(s)>)` / `X.endswith(..)`: source text keeps its spelling, so X is case-folded - `X.lower().startswith(..)`, or
    X is a local name whose textually last binding before the test is a case fold (`name = name.strip().lower()`).  Generated for every such call in the current source whose
    literal holds a lower-case letter and only letters / blanks (a Fortran keyword, not a marker or a file extension)."""
    _, tree = loader.module_source(module)
    out = []
    kw = lambda e: isinstance(e, ast.Constant) and isinstance(e.value, str) and any(ch.islower() for ch in e.value) and all(ch.isalpha() or ch == " " for ch in e.value)
    for fn in [x for x in ast.walk(tree) if isinstance(x, (ast.FunctionDef, ast.AsyncFunctionDef))]:
        inner = {id(n) for sub in ast.walk(fn) if sub is not fn and isinstance(sub, (ast.FunctionDef, ast.AsyncFunctionDef)) for n in ast.walk(sub)}
        k = 0
        for c in ast.walk(fn):
            if id(c) in inner or not (isinstance(c, ast.Call) and isinstance(c.func, ast.Attribute) and c.func.attr in ("startswith", "endswith") and len(c.args) >= 1):
                continue
            lit = c.args[0]
            if not (kw(lit) or (isinstance(lit, ast.Tuple) and lit.elts and all(kw(e) for e in lit.elts))):
                continue
            recv = c.func.value
            ok = any(_is_fold_call(n) for n in ast.walk(recv))
            if not ok and isinstance(recv, ast.Name):
                binds = [(n.lineno, n.value) for n in ast.walk(fn) if isinstance(n, ast.Assign) and n.lineno < c.lineno and any(isinstance(t, ast.Name) and t.id == recv.id for t in n.targets)]
                binds += [(n.lineno, n.value) for n in ast.walk(fn) if isinstance(n, ast.NamedExpr) and n.lineno <= c.lineno and n.target.id == recv.id]
                if binds:
                    last = max(binds, key=lambda b: b[0])[1]
                    ok = any(_is_fold_call(n) for n in ast.walk(last))
            r = OR(id=f"{prop}.S.casefold.prefix.{fn.name}.site{k}", status=PROVED if ok else REFUTED, kind="S", role="post", backend="ast", target=f"{module}.{fn.name}",
                   desc=f"`{ast.unparse(c)[:90]}` (line {c.lineno}): the text is case-folded before its leading / trailing keyword is tested")
            if not ok:
                r.witness = {"test": ast.unparse(c), "line": c.lineno}
                r.detail = "the tested text keeps the spelling of the source: an upper- or mixed-case keyword takes the other branch"
                if replay:
                    r.replay = replay()
            out.append(r)
            k += 1
    if not out:
        out.append(OR(id=f"{prop}.S.casefold.prefix.anchor", status=UNKNOWN, kind="S", target=module, detail="no keyword prefix test found (code restructured?)"))
    return out


def metadata_key_obligation(prop, replay=None):
    """FortranBase.read_metadata decides whether the first line of a comment (`Word: ...`) is metadata by looking the word up among the EntitySettings field names.  Metadata
    keys are case-insensitive (ford.utils.meta_preprocessor lower-cases them): the looked-up word is case-folded."""
    oid = f"{prop}.S.casefold.read_metadata.key_lookup"
    try:
        fn = loader.find_def("ford.sourceform", "FortranBase.read_metadata")
    except loader.TargetMissing as e:
        return [OR(id=oid, status=UNKNOWN, kind="S", target="ford.sourceform.FortranBase.read_metadata", detail=str(e))]
    names = {t.id for n in ast.walk(fn) if isinstance(n, ast.Assign) and "fields(" in ast.unparse(n.value) for t in n.targets if isinstance(t, ast.Name)}
    sites = [c for c in ast.walk(fn) if isinstance(c, ast.Compare) and len(c.ops) == 1 and isinstance(c.ops[0], (ast.In, ast.NotIn))
             and (("fields(" in ast.unparse(c.comparators[0])) or (isinstance(c.comparators[0], ast.Name) and c.comparators[0].id in names))]
    if not sites:
        return [OR(id=oid, status=UNKNOWN, kind="S", target="ford.sourceform.FortranBase.read_metadata", detail="no lookup among the EntitySettings field names found")]
    out = []
    for k, c in enumerate(sites):
        ok = any(_is_fold_call(n) for n in ast.walk(c.left))
        if not ok and isinstance(c.left, ast.Name):
            binds = [n.value for n in ast.walk(fn) if isinstance(n, ast.Assign) and n.lineno < c.lineno and any(isinstance(t, ast.Name) and t.id == c.left.id for t in n.targets)]
            ok = bool(binds) and any(_is_fold_call(n) for n in ast.walk(binds[-1]))
        r = OR(id=f"{oid}.site{k}", status=PROVED if ok else REFUTED, kind="S", role="post", backend="ast", target="ford.sourceform.FortranBase.read_metadata",
               desc=f"`{ast.unparse(c)[:80]}` (line {c.lineno}): the first word of the comment is case-folded before it is looked up among the metadata keys")
        if not ok:
            r.witness = {"comparison": ast.unparse(c), "line": c.lineno}
            r.detail = "`Display: private` is taken for text: the override is dropped and the line is shown"
            if replay:
                r.replay = replay()
        out.append(r)
    return out


NAME_TABLES = {"all_procs", "all_types", "all_vars", "all_absinterfaces", "pub_procs", "pub_types", "pub_vars", "pub_absints", "used_names", "attr_dict", "param_dict"}
VALUE_IS_A_NAME = {"used_names"}        # tables whose values are names themselves (local name of a renamed entity): looked up as keys later


def table_store_obligations(prop, module="ford.sourceform", replay=None):
    """the name tables of a scope (all_procs / all_types / all_vars / all_absinterfaces, the pub_* tables of a module, used_names of a USE statement, attr_dict / param_dict of the
    attribute statements) are keyed by lower-cased names - every lookup folds the name it looks for.  So every *store* `table[key] = ..` in the current source folds its key:
    the key expression contains a case fold, or is a local name whose textually last binding before the store does (directly, or through slices / strip() of such a name).  For
    used_names the stored value is a name as well (the local name after `=>`) and is folded too."""
    _, tree = loader.module_source(module)
    out = []
    is_tab = lambda e: (isinstance(e, ast.Attribute) and e.attr in NAME_TABLES) or (isinstance(e, ast.Name) and e.id in NAME_TABLES)
    tname = lambda e: e.attr if isinstance(e, ast.Attribute) else e.id

    def folded(fn, e, line, depth=0):
        if any(_is_fold_call(n) for n in ast.walk(e)):
            return True
        if isinstance(e, ast.Constant):
            return True
        if depth > 4:
            return False
        names = [n for n in ast.walk(e) if isinstance(n, ast.Name) and isinstance(n.ctx, ast.Load)]
        # an expression over local names only (slices, strip, concatenation): every name it reads was last bound to folded text
        if not names or any(isinstance(n, ast.Attribute) for n in ast.walk(e) if not (isinstance(n, ast.Attribute) and isinstance(getattr(n, "ctx", None), ast.Load) and n.attr in ("strip", "rstrip", "lstrip", "index", "replace", "sub"))):
            return False
        for nm in names:
            binds = [(b.lineno, b.value) for b in ast.walk(fn) if isinstance(b, ast.Assign) and b.lineno < line and any(isinstance(t, ast.Name) and t.id == nm.id for t in b.targets)]
            if not binds:
                if nm.id in ("len", "str", "int", "re"):
                    continue
                return False
            ln, val = max(binds, key=lambda b: b[0])
            if not folded(fn, val, ln, depth + 1):
                return False
        return True
    for fn in [x for x in ast.walk(tree) if isinstance(x, (ast.FunctionDef, ast.AsyncFunctionDef))]:
        k = 0
        for st in ast.walk(fn):
            # table[key].append(..) (attr_dict: a list per name) and table.update({key: ..}) / table = {key: .. for ..} are stores as well
            extra = []
            if isinstance(st, ast.Expr) and isinstance(st.value, ast.Call) and isinstance(st.value.func, ast.Attribute):
                f = st.value.func
                if f.attr in ("append", "extend") and isinstance(f.value, ast.Subscript) and is_tab(f.value.value):
                    extra.append((f.value.value, f.value.slice))
                if f.attr == "update" and is_tab(f.value) and st.value.args and isinstance(st.value.args[0], (ast.DictComp, ast.Dict)):
                    d = st.value.args[0]
                    extra += [(f.value, d.key)] if isinstance(d, ast.DictComp) else [(f.value, kk) for kk in d.keys if kk is not None]
            if isinstance(st, ast.Assign) and len(st.targets) == 1 and is_tab(st.targets[0]) and isinstance(st.value, ast.DictComp):
                extra.append((st.targets[0], st.value.key))
            for tab, key in extra:
                ok = folded(fn, key, st.lineno + 1)
                r = OR(id=f"{prop}.S.casefold.tables.{fn.name}.site{k}", status=PROVED if ok else REFUTED, kind="S", role="invariant", backend="ast", target=f"{module}.{fn.name}",
                       desc=f"`{ast.unparse(st)[:90]}` (line {st.lineno}): the name written into the table `{tname(tab)}` is case-folded")
                if not ok:
                    r.witness = {"store": ast.unparse(st), "line": st.lineno}
                    r.detail = "lookups fold the name they look for: an entry stored under a name that keeps the spelling of the source is never found"
                    if replay:
                        r.replay = replay()
                out.append(r)
                k += 1
            if not isinstance(st, ast.Assign):
                continue
            for t in st.targets:
                if not (isinstance(t, ast.Subscript) and is_tab(t.value)):
                    continue
                ok_key = folded(fn, t.slice, st.lineno + 1)
                ok_val = tname(t.value) not in VALUE_IS_A_NAME or folded(fn, st.value, st.lineno + 1)
                ok = ok_key and ok_val
                r = OR(id=f"{prop}.S.casefold.tables.{fn.name}.site{k}", status=PROVED if ok else REFUTED, kind="S", role="invariant", backend="ast", target=f"{module}.{fn.name}",
                       desc=f"`{ast.unparse(st)[:90]}` (line {st.lineno}): the name written into the table `{tname(t.value)}` is case-folded")
                if not ok:
                    r.witness = {"store": ast.unparse(st), "line": st.lineno, "key_folded": ok_key, "value_folded": ok_val}
                    r.detail = "lookups fold the name they look for: an entry stored under a name that keeps the spelling of the source is never found"
                    if replay:
                        r.replay = replay()
                out.append(r)
                k += 1
    if len(out) < 5:
        out.append(OR(id=f"{prop}.S.casefold.tables.anchor", status=UNKNOWN, kind="S", target=module, detail=f"expected the stores into the name tables, found {len(out)}"))
    return out


def flow_obligations(prop, module="ford.sourceform", replay=None):
    """keyword tests on a *local name* (`attribute in ["public", "private"]`, `attr == "deferred"`): the name's textually last binding before the test decides.  Followed back through
    assignments and `for` targets: a case fold on the way -> folded; text captured by a (case-insensitive) pattern reached without one -> the test sees the spelling of the
    source.  Complements `obligations` (which looks at direct reads of captures): generated for every such comparison in functions that handle a match object."""
    _, tree = loader.module_source(module)
    out = []
    for fn in [x for x in ast.walk(tree) if isinstance(x, (ast.FunctionDef, ast.AsyncFunctionDef))]:
        M = _match_names(fn)
        if not M:
            continue
        binds = []      # (line, name, expression that gives the value, is_loop)
        for n in ast.walk(fn):
            if isinstance(n, ast.Assign):
                for t in n.targets:
                    if isinstance(t, ast.Name):
                        binds.append((n.lineno, t.id, n.value))
            elif isinstance(n, ast.NamedExpr) and isinstance(n.target, ast.Name):
                binds.append((n.lineno, n.target.id, n.value))
            elif isinstance(n, (ast.For, ast.comprehension)) and isinstance(n.target, ast.Name):
                binds.append((getattr(n, "lineno", n.iter.lineno), n.target.id, n.iter))

        def origin(name, line, depth=0):
            """'folded' | 'captured' | None"""
            if depth > 6:
                return None
            prev = [b for b in binds if b[1] == name and b[0] < line] or [b for b in binds if b[1] == name and b[0] == line]
            if not prev:
                return None
            ln, _, val = max(prev, key=lambda b: b[0])
            if any(_is_fold_call(x) for x in ast.walk(val)):
                return "folded"
            if any(_is_capture(x, M, set()) for x in ast.walk(val)):
                return "captured"
            res = None
            for x in ast.walk(val):
                if isinstance(x, ast.Name) and isinstance(x.ctx, ast.Load) and x.id != "self":
                    o = origin(x.id, ln if x.id != name else ln - 0.5, depth + 1) if x.id != name else origin(name, ln, depth + 1) if any(b[1] == name and b[0] < ln for b in binds) else None
                    if o == "captured":
                        return "captured"
                    res = res or o
            return res
        k = 0
        for c in ast.walk(fn):
            if not (isinstance(c, ast.Compare) and len(c.ops) == 1 and isinstance(c.ops[0], (ast.Eq, ast.NotEq, ast.In, ast.NotIn))):
                continue
            ops = [c.left] + list(c.comparators)
            if not any(_lower_literal(o) for o in ops):
                continue
            names = [o for o in ops if isinstance(o, ast.Name)]
            if len(names) != 1:
                continue
            o = origin(names[0].id, c.lineno + 0.5)
            if o is None:
                continue
            r = OR(id=f"{prop}.S.casefold.flow.{fn.name}.site{k}", status=PROVED if o == "folded" else REFUTED, kind="S", role="post", backend="ast", target=f"{module}.{fn.name}",
                   desc=f"`{ast.unparse(c)[:80]}` (line {c.lineno}): the last binding of `{names[0].id}` before the test goes back to captured text through a case fold")
            if o != "folded":
                r.witness = {"comparison": ast.unparse(c), "line": c.lineno, "name": names[0].id}
                r.detail = f"`{names[0].id}` holds text of the source as written: an upper-case keyword takes the other branch"
                if replay:
                    r.replay = replay()
            out.append(r)
            k += 1
    if not out:
        out.append(OR(id=f"{prop}.S.casefold.flow.anchor", status=UNKNOWN, kind="S", target=module, detail="no keyword test on a local name found in the match-handling functions"))
    return out

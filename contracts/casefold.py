"""Letter-case independence of keyword tests on captured text (C01).

FORD's statement patterns are compiled with re.IGNORECASE, so a captured group keeps the spelling of the source.  Every comparison of
captured text with a lower-case keyword literal must therefore fold the case first.  The obligation is syntactic and is generated for every
comparison found in the current source:

    for each function f of the module
        M(f) = names bound to a match object in f (parameters annotated `re.Match`, targets of `x = P.match(..)` / `x := P.search(..)` /
               fullmatch, loop targets of finditer)
        T(f) = names assigned from captured text that has not been case-folded (`typestr = line.group(1)`), closed under re-assignment
    for each Compare(==, !=, in, not in) in f with a literal operand L (a str constant with a lower-case letter, or a list / tuple / set of them)
        and another operand E that reads captured text (`m[..]`, `m.group(..)` with m in M(f), or a name in T(f)):
            E reaches the comparison only through .lower() / .casefold()          (PROVED)   otherwise REFUTED

A refuted site is replayed by running the real parser on the model programs with upper-cased keywords (bounded.c01)."""
from __future__ import annotations
import ast
from harness.core import OR, PROVED, REFUTED, UNKNOWN
from harness import loader

FOLDS = ("lower", "casefold")
MATCHERS = ("match", "search", "fullmatch")


def _bindings(fn):
    for n in ast.walk(fn):
        if isinstance(n, ast.NamedExpr) and isinstance(n.target, ast.Name):
            yield n.target.id, n.value
        elif isinstance(n, ast.Assign) and len(n.targets) == 1 and isinstance(n.targets[0], ast.Name):
            yield n.targets[0].id, n.value


def _calls(val, attrs):
    return any(isinstance(c, ast.Call) and isinstance(c.func, ast.Attribute) and c.func.attr in attrs for c in ast.walk(val))


def _match_names(fn):
    names = set()
    for a in fn.args.args + fn.args.kwonlyargs:
        if a.annotation is not None and "Match" in ast.unparse(a.annotation):
            names.add(a.arg)
    for n in ast.walk(fn):
        if isinstance(n, (ast.For, ast.comprehension)) and isinstance(n.target, ast.Name) and _calls(n.iter, ("finditer",)):
            names.add(n.target.id)
    for name, val in _bindings(fn):
        # `x := P.match(line) or Q.match(line)` binds a match object as well
        if _calls(val, MATCHERS):
            names.add(name)
    return names


def _is_capture(n, M, T):
    if isinstance(n, ast.Name) and n.id in T:
        return True
    if isinstance(n, ast.Subscript) and isinstance(n.value, ast.Name) and n.value.id in M:
        return True
    if isinstance(n, ast.Call) and isinstance(n.func, ast.Attribute) and n.func.attr == "group" and isinstance(n.func.value, ast.Name) and n.func.value.id in M:
        return True
    return False


def _unfolded_capture(expr, M, T, folded=False):
    """a captured-text read inside expr that is not under a case fold -> its source text, else None"""
    if isinstance(expr, ast.Call) and isinstance(expr.func, ast.Attribute) and expr.func.attr in FOLDS:
        return _unfolded_capture(expr.func.value, M, T, True)
    if _is_capture(expr, M, T):
        return None if folded else ast.unparse(expr)
    # string methods that keep the letters (strip, replace, slicing, ...) pass the fold state through
    for ch in ast.iter_child_nodes(expr):
        if isinstance(ch, ast.expr):
            r = _unfolded_capture(ch, M, T, folded)
            if r:
                return r
    return None


def _tainted_names(fn, M):
    T = set()
    while True:
        new = set()
        for name, val in _bindings(fn):
            if name in M or name in T:
                continue
            # plain string-valued reads only: m[..], m.group(..), possibly through strip() / slices / concatenation
            if any(isinstance(x, (ast.Compare, ast.BoolOp, ast.ListComp, ast.GeneratorExp, ast.Dict, ast.Lambda)) for x in ast.walk(val)):
                continue
            if _calls(val, MATCHERS + ("split", "finditer", "findall", "paren_split", "get_parens", "index", "find", "len")):
                continue
            if _unfolded_capture(val, M, T):
                new.add(name)
        if not new:
            return T
        T |= new


def _lower_literal(n):
    if isinstance(n, ast.Constant) and isinstance(n.value, str):
        return any(ch.islower() for ch in n.value)
    if isinstance(n, (ast.List, ast.Tuple, ast.Set)):
        return bool(n.elts) and all(isinstance(e, ast.Constant) and isinstance(e.value, str) for e in n.elts) and any(_lower_literal(e) for e in n.elts)
    return False


def obligations(prop, module="ford.sourceform", replay=None):
    _, tree = loader.module_source(module)
    out, seen = [], 0
    for fn in [x for x in ast.walk(tree) if isinstance(x, (ast.FunctionDef, ast.AsyncFunctionDef))]:
        M = _match_names(fn)
        if not M:
            continue
        T = _tainted_names(fn, M)
        k = 0
        for c in ast.walk(fn):
            if not isinstance(c, ast.Compare):
                continue
            ops = [c.left] + list(c.comparators)
            if not any(_lower_literal(o) for o in ops):
                continue
            if not all(isinstance(o, (ast.Eq, ast.NotEq, ast.In, ast.NotIn)) for o in c.ops):
                continue
            reads = [o for o in ops if not _lower_literal(o) and any(_is_capture(x, M, T) for x in ast.walk(o))]
            if not reads:
                continue
            seen += 1
            bad = None
            for o in reads:
                bad = bad or _unfolded_capture(o, M, T)
            r = OR(id=f"{prop}.S.casefold.{fn.name}.site{k}", status=REFUTED if bad else PROVED, kind="S", role="post", backend="ast", target=f"{module}.{fn.name}",
                   desc=f"`{ast.unparse(c)[:80]}` (line {c.lineno}): text captured by a case-insensitive pattern is case-folded before it is compared with a keyword")
            if bad:
                r.witness = {"comparison": ast.unparse(c), "line": c.lineno, "unfolded": bad}
                r.detail = f"{bad} keeps the spelling of the source: an upper-case keyword takes the other branch"
                if replay:
                    r.replay = replay()
            out.append(r)
            k += 1
    if seen == 0:
        out.append(OR(id=f"{prop}.S.casefold.anchor", status=UNKNOWN, kind="S", target=module, detail="no comparison of captured text with a keyword literal found (code restructured?)"))
    return out


FILE_NAME_FUNCTIONS = {"find_all_files"}


def _is_fold_call(e):
    return isinstance(e, ast.Call) and isinstance(e.func, ast.Attribute) and e.func.attr in FOLDS


def name_obligations(prop, modules=("ford.sourceform", "ford.fortran_project"), replay=None):
    """Fortran names are case-insensitive and FORD keeps the spelling of the declaration in `entity.name`: every equality test between an entity's name and another
    name folds the case of *both* sides (`a.name.lower() == b.lower()`); a membership test in one of the lower-keyed name tables folds the name.  Generated for every
    comparison in the current source in which `<expr>.name` occurs and no side is a literal."""
    out = []
    has_name = lambda e: any(isinstance(n, ast.Attribute) and n.attr == "name" for n in ast.walk(e))
    for module in modules:
        _, tree = loader.module_source(module)
        for fn in [x for x in ast.walk(tree) if isinstance(x, (ast.FunctionDef, ast.AsyncFunctionDef))]:
            if fn.name in FILE_NAME_FUNCTIONS:
                continue            # `.name` of a pathlib path: file names, not Fortran names
            # local names that hold an already folded name (`dependency_name = dependency[0].lower()`)
            folded = {t.id for n in ast.walk(fn) if isinstance(n, ast.Assign) and len(n.targets) == 1 and isinstance((t := n.targets[0]), ast.Name) and _is_fold_call(n.value)}
            is_fold = lambda e, folded=folded: _is_fold_call(e) or (isinstance(e, ast.Name) and e.id in folded)
            k = 0
            for c in ast.walk(fn):
                if not (isinstance(c, ast.Compare) and len(c.ops) == 1 and isinstance(c.ops[0], (ast.Eq, ast.NotEq, ast.In, ast.NotIn))):
                    continue
                l, r = c.left, c.comparators[0]
                if not (has_name(l) or has_name(r)) or isinstance(l, ast.Constant) or isinstance(r, ast.Constant) or isinstance(r, (ast.List, ast.Tuple, ast.Set)):
                    continue
                if isinstance(c.ops[0], (ast.In, ast.NotIn)):
                    if not has_name(l):
                        continue
                    ok = is_fold(l)
                else:
                    # identity-like comparisons of two entities' attributes other than names (x.name == y.name where both are the same kind of string) still need the fold
                    ok = is_fold(l) and is_fold(r)
                r_ = OR(id=f"{prop}.S.casefold.names.{module.split('.')[-1]}.{fn.name}.site{k}", status=PROVED if ok else REFUTED, kind="S", role="post", backend="ast", target=f"{module}.{fn.name}",
                        desc=f"`{ast.unparse(c)[:80]}` (line {c.lineno}): names are compared with the case folded on both sides")
                if not ok:
                    r_.witness = {"comparison": ast.unparse(c), "line": c.lineno}
                    r_.detail = "an entity's name keeps the spelling of its declaration: a reference spelt in another letter case does not match"
                    if replay:
                        r_.replay = replay()
                out.append(r_)
                k += 1
    if not out:
        out.append(OR(id=f"{prop}.S.casefold.names.anchor", status=UNKNOWN, kind="S", target=",".join(modules), detail="no comparison of entity names found"))
    return out


def attribute_obligations(prop, module="ford.sourceform", replay=None):
    """attributes of a declared entity keep the spelling of the source (`REAL, EXTERNAL :: f`): a test for an attribute word on another entity's `attribs` folds the case of
    the list (`"external" in [a.lower() for a in v.attribs]`).  (`self.attribs` of a procedure is produced lower-cased by _list_of_procedure_attributes and is exempt.)"""
    _, tree = loader.module_source(module)
    out = []
    for fn in [x for x in ast.walk(tree) if isinstance(x, (ast.FunctionDef, ast.AsyncFunctionDef))]:
        k = 0
        for c in ast.walk(fn):
            if not (isinstance(c, ast.Compare) and len(c.ops) == 1 and isinstance(c.ops[0], (ast.In, ast.NotIn)) and isinstance(c.left, ast.Constant) and isinstance(c.left.value, str)):
                continue
            r = c.comparators[0]
            reads = [n for n in ast.walk(r) if isinstance(n, ast.Attribute) and n.attr == "attribs" and not (isinstance(n.value, ast.Name) and n.value.id == "self")]
            if not reads:
                continue
            ok = not (isinstance(r, ast.Attribute)) and any(_is_fold_call(n) for n in ast.walk(r))
            o = OR(id=f"{prop}.S.casefold.attribs.{fn.name}.site{k}", status=PROVED if ok else REFUTED, kind="S", role="post", backend="ast", target=f"{module}.{fn.name}",
                   desc=f"`{ast.unparse(c)[:90]}` (line {c.lineno}): an attribute word is looked up among case-folded attributes")
            if not ok:
                o.witness = {"comparison": ast.unparse(c), "line": c.lineno}
                o.detail = "attributes keep the letter case of the source: an upper-case attribute is not found"
                if replay:
                    o.replay = replay()
            out.append(o)
            k += 1
    if not out:
        out.append(OR(id=f"{prop}.S.casefold.attribs.anchor", status=UNKNOWN, kind="S", target=module, detail="no attribute membership test on another entity's attribs found"))
    return out

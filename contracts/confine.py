"""Call-site obligations for C19: every file-system mutating call of the ford package (enumerated mechanically on every run) gets the
precondition  under(output_dir, target) or under(graph_dir, target), discharged from the function-local symbolic state with a small path algebra:

    value ::= Under(ROOT)            a path inside ROOT (ROOT in OUT, GRAPH)
            | Safe                   a relative path component without '..' (so that  Under(R) / Safe  is Under(R); an absolute or '..'
                                     right operand would escape: pathlib discards the left operand for absolute right operands)
            | Unknown(reason)

Contracts used (each one checked where it is established, or listed as assumed):
  * attribute contracts  self.out_dir, self.page_dir (BasePage.__init__), self.graphdir (GraphManager.__init__), self.output_path (tipue)
    are established by analysing the assignments in the named __init__;
  * parameter contracts  (function, parameter) -> ROOT turn into call-site obligations at every caller found in the package;
  * component contracts  ident / object_page / get_dir() / imgfile / out_page / template_path / PageNode.path, .location / file base names are Safe
    (C10, C17 carry their own contracts; here they are assumptions).
A new or changed mutating call is a new obligation; a target the algebra cannot place is a failed call-site precondition."""
from __future__ import annotations
import ast, os
from harness.core import OR, PROVED, REFUTED, UNKNOWN
from harness import loader

MODULES = ["ford.__init__", "ford.output", "ford.graphs", "ford.tipue_search", "ford.external_project", "ford.pagetree", "ford.utils", "ford.fortran_project",
           "ford.sourceform", "ford.reader", "ford.settings", "ford._markdown", "ford.md_admonition", "ford.md_environ", "ford.console"]
OUT, GRAPH = "OUT", "GRAPH"

# attribute -> value, established in the named initialiser (verified below)
ATTR_CONTRACTS = {
    ("ford.output", "BasePage", "out_dir"): OUT, ("ford.output", "BasePage", "page_dir"): OUT,
    ("ford.graphs", "GraphManager", "graphdir"): GRAPH, ("ford.tipue_search", "Tipue_Search_JSON_Generator", "output_path"): OUT,
}
# parameter contracts: callers must pass a path under ROOT
PARAM_CONTRACTS = {
    ("ford.output", "copytree", "dst"): "ANY",                     # ford's wrapper: its own writes are under dst; callers carry the obligation
    ("ford.graphs", "FortranGraph.create_svg", "out_location"): GRAPH,
    ("ford.graphs", "FortranGraph._create_image_file", "filename"): GRAPH,
    ("ford.graphs", "GraphManager.__init__", "graphdir"): GRAPH,
    ("ford.graphs", "outputFuncWrap", "args"): GRAPH,
    ("ford.tipue_search", "Tipue_Search_JSON_Generator.__init__", "output_path"): OUT,
    ("ford.external_project", "dump_modules", "path"): OUT,
}
SAFE_ATTRS = {"ident", "object_page", "imgfile", "out_page", "template_path", "name", "path", "location", "stem"}
SAFE_CALLS = {"get_dir"}
DATA_KEYS = {"output_dir": OUT, "graph_dir": GRAPH}
MUTATORS_METHOD = {"mkdir", "unlink", "write_bytes", "write_text", "touch", "rmdir", "symlink_to", "hardlink_to", "chmod"}
MUTATORS_SHUTIL = {"rmtree": 0, "copy": 1, "copy2": 1, "copyfile": 1, "copytree": 1, "move": 1}


class Val:
    def __init__(self, kind, root=None, why=""):
        self.kind, self.root, self.why = kind, root, why

    def __repr__(self):
        return f"{self.kind}({self.root or self.why})"


def under(r):
    return Val("under", r)


SAFE = Val("safe")


def unknown(why):
    return Val("unknown", why=why)


class Fn:
    def __init__(self, mod, qual, node, cls=None):
        self.mod, self.qual, self.node, self.cls = mod, qual, node, cls


def functions():
    out = []
    for mod in MODULES:
        try:
            _, tree = loader.module_source(mod)
        except FileNotFoundError:
            continue
        for n in tree.body:
            if isinstance(n, ast.FunctionDef):
                out.append(Fn(mod, n.name, n))
            elif isinstance(n, ast.ClassDef):
                for m in n.body:
                    if isinstance(m, ast.FunctionDef):
                        out.append(Fn(mod, f"{n.name}.{m.name}", m, n.name))
        # what a module does when it is imported (`env = jinja2.Environment(...)`) runs in every FORD run as well
        top = [n for n in tree.body if not isinstance(n, (ast.FunctionDef, ast.ClassDef, ast.Import, ast.ImportFrom))]
        if top:
            out.append(Fn(mod, "<module>", ast.Module(body=top, type_ignores=[])))
    return out


def class_bases():
    b = {}
    for mod in MODULES:
        try:
            _, tree = loader.module_source(mod)
        except FileNotFoundError:
            continue
        for n in tree.body:
            if isinstance(n, ast.ClassDef):
                b[(mod, n.name)] = [x.id for x in n.bases if isinstance(x, ast.Name)]
    return b


def attr_contract(mod, cls, attr, bases):
    seen, todo = set(), [cls]
    while todo:
        c = todo.pop()
        if c in seen:
            continue
        seen.add(c)
        if (mod, c, attr) in ATTR_CONTRACTS:
            return ATTR_CONTRACTS[(mod, c, attr)]
        todo += bases.get((mod, c), [])
    return None


class Eval:
    def __init__(self, fn: Fn, bases, upto_line, guards=None):
        self.fn, self.bases, self.upto = fn, bases, upto_line
        self.depth = 0

    def local_assign(self, name):
        best = None
        for n in ast.walk(self.fn.node):
            tgt = None
            if isinstance(n, ast.Assign) and len(n.targets) == 1:
                tgt = n.targets[0]
            elif isinstance(n, ast.AnnAssign) and n.value is not None:
                tgt = n.target
            if isinstance(tgt, ast.Name) and tgt.id == name and n.lineno <= self.upto:
                if best is None or n.lineno > best.lineno:
                    best = n
        return best

    def loop_binding(self, name):
        for n in ast.walk(self.fn.node):
            if isinstance(n, ast.For) and isinstance(n.target, ast.Name) and n.target.id == name and n.lineno <= self.upto <= (n.end_lineno or n.lineno):
                return n
        return None

    def ev(self, e):
        self.depth += 1
        if self.depth > 40:
            return unknown("recursion")
        try:
            return self._ev(e)
        finally:
            self.depth -= 1

    def _ev(self, e):
        if isinstance(e, ast.Constant):
            if isinstance(e.value, str):
                parts = e.value.replace("\\", "/").split("/")
                if e.value.startswith("/") or ".." in parts:
                    return unknown(f"constant {e.value!r} is absolute or contains '..'")
                return SAFE
            return unknown("non-string constant")
        if isinstance(e, ast.JoinedStr):
            for v in e.values:
                if isinstance(v, ast.FormattedValue):
                    r = self.ev(v.value)
                    if r.kind != "safe":
                        return unknown("f-string with a component that is not known to be safe")
                elif isinstance(v, ast.Constant) and ("/" in str(v.value) or ".." in str(v.value)):
                    return unknown("f-string literal part with '/' or '..'")
            return SAFE
        if isinstance(e, ast.BinOp) and isinstance(e.op, ast.Div):
            l, r = self.ev(e.left), self.ev(e.right)
            if l.kind == "under" and r.kind == "safe":
                return under(l.root)
            if l.kind == "safe" and r.kind == "safe":
                return SAFE
            return unknown(f"{ast.unparse(e)}: left {l}, right {r}")
        if isinstance(e, ast.BinOp) and isinstance(e.op, ast.Add):
            l = self.ev(e.left)
            if isinstance(e.right, ast.Constant) and isinstance(e.right.value, str) and "/" not in e.right.value and ".." not in e.right.value:
                return l          # suffix appended to the last component
            return unknown(f"string concatenation {ast.unparse(e)}")
        if isinstance(e, ast.Call):
            f = e.func
            if isinstance(f, ast.Name) and f.id in ("str", "Path") and len(e.args) == 1:
                return self.ev(e.args[0])
            if isinstance(f, ast.Attribute) and f.attr == "Path" and len(e.args) == 1:
                return self.ev(e.args[0])
            if isinstance(f, ast.Attribute) and f.attr in ("basename",):
                return SAFE
            if isinstance(f, ast.Attribute) and f.attr in SAFE_CALLS:
                return SAFE
            if isinstance(f, ast.Attribute) and f.attr == "get" and isinstance(f.value, ast.Attribute) and f.value.attr == "data" and e.args and isinstance(e.args[0], ast.Constant) \
                    and e.args[0].value in DATA_KEYS:
                return under(DATA_KEYS[e.args[0].value])
            if isinstance(f, ast.Attribute) and f.attr in ("resolve", "absolute"):
                return self.ev(f.value)
            return unknown(f"call {ast.unparse(e)[:60]}")
        if isinstance(e, ast.Subscript):
            if isinstance(e.slice, ast.Constant) and e.slice.value in DATA_KEYS and "data" in ast.unparse(e.value):
                return under(DATA_KEYS[e.slice.value])
            if (isinstance(e.slice, ast.Constant) and isinstance(e.slice.value, int)) or \
                    (isinstance(e.slice, ast.UnaryOp) and isinstance(e.slice.operand, ast.Constant) and isinstance(e.slice.operand.value, int)):
                # element of a tuple parameter (graph writer helpers take (graph, graph, directory) tuples)
                v = self.ev(e.value)
                return v
            return unknown(f"subscript {ast.unparse(e)[:60]}")
        if isinstance(e, ast.Attribute):
            if isinstance(e.value, ast.Name) and e.value.id == "self" and self.fn.cls:
                c = attr_contract(self.fn.mod, self.fn.cls, e.attr, self.bases)
                if c:
                    return under(c)
                if e.attr == "outfile":
                    return under(OUT)       # every outfile property is itself an obligation (see outfile_obligations)
            if e.attr in ("output_dir",):
                return under(OUT)
            if e.attr == "graph_dir":
                return under(GRAPH)
            if e.attr in SAFE_ATTRS:
                return SAFE
            if e.attr == "parent":
                return unknown("parent of a path")
            return unknown(f"attribute {ast.unparse(e)[:60]}")
        if isinstance(e, ast.Name):
            lb = self.loop_binding(e.id)
            if lb is not None:
                it = lb.iter
                if isinstance(it, (ast.List, ast.Tuple)) and all(isinstance(x, ast.Constant) for x in it.elts):
                    vals = [self.ev(x) for x in it.elts]
                    return SAFE if all(v.kind == "safe" for v in vals) else unknown("loop over constants, one of which is not safe")
                src = ast.unparse(it)
                if src.endswith(".files"):
                    return SAFE          # PageNode.files: base names from os.listdir (C17)
                if ".rglob(" in src or ".glob(" in src or ".iterdir(" in src:
                    return self.ev(it.func.value) if isinstance(it, ast.Call) and isinstance(it.func, ast.Attribute) else unknown("glob")
                if src.endswith(".copy_subdir"):
                    # user-provided: safe only under the relative_to guard (checked by the caller of ev)
                    return Val("guarded", why="copy_subdir")
                return unknown(f"loop variable over {src[:60]}")
            a = self.local_assign(e.id)
            if a is not None:
                saved = self.upto
                self.upto = a.lineno - 1          # names on the right-hand side refer to earlier bindings (x = Path(x))
                try:
                    return self.ev(a.value)
                finally:
                    self.upto = saved
            pc = PARAM_CONTRACTS.get((self.fn.mod, self.fn.qual, e.id))
            if pc:
                return under("PARAM:" + e.id if pc == "ANY" else pc)
            inferred = infer_param(self.fn, e.id, self.bases)
            if inferred is not None:
                return inferred
            return unknown(f"name {e.id}")
        return unknown(type(e).__name__)


_INFER_STACK = []


def infer_param(fn, name, bases):
    """parameter contract of a *private* helper (`_name`, only ever called, never passed around): what every caller in the package passes.  The helper's writes are then
    confined because each call site's argument is - the obligation moves to the call sites, as for the declared PARAM_CONTRACTS.  None: not a parameter / not private /
    no callers / referenced other than by a call."""
    if not hasattr(fn.node, "args"):
        return None
    a = fn.node.args
    params = [x.arg for x in a.posonlyargs + a.args]
    simple = fn.qual.split(".")[-1]
    if name not in params + [x.arg for x in a.kwonlyargs] or not simple.startswith("_") or simple.startswith("__") or (fn.mod, fn.qual, name) in _INFER_STACK:
        return None
    is_method = fn.cls is not None and params and params[0] in ("self", "cls")
    pos = params.index(name) - (1 if is_method else 0) if name in params else None
    vals = []
    _INFER_STACK.append((fn.mod, fn.qual, name))
    try:
        for caller in functions():
            if caller.mod != fn.mod:
                continue
            for n in ast.walk(caller.node):
                if isinstance(n, ast.Attribute) and n.attr == simple or isinstance(n, ast.Name) and n.id == simple:
                    par = next((c for c in ast.walk(caller.node) if isinstance(c, ast.Call) and c.func is n), None)
                    if par is None:
                        return None          # the helper escapes as a value
                    arg = next((k.value for k in par.keywords if k.arg == name), par.args[pos] if pos is not None and pos < len(par.args) and not any(isinstance(x, ast.Starred) for x in par.args) else None)
                    if arg is None:
                        return unknown(f"parameter {name} of {fn.qual}: a caller does not pass it ({ast.unparse(par)[:60]})")
                    vals.append(Eval(caller, bases, par.lineno).ev(arg))
    finally:
        _INFER_STACK.pop()
    if not vals:
        return None
    if all(v.kind == "under" for v in vals) and len({v.root for v in vals}) == 1:
        return under(vals[0].root)
    if all(v.kind == "safe" for v in vals):
        return SAFE
    return unknown(f"parameter {name} of {fn.qual}: callers pass {vals}")


def _guarded(fn_node, call, target_src):
    """is the call preceded, in the same try-body, by `<target>.resolve().relative_to(<R>.resolve())`?"""
    for n in ast.walk(fn_node):
        if isinstance(n, ast.Try):
            body = n.body
            for i, st in enumerate(body):
                if call in list(ast.walk(st)):
                    for prev in body[:i]:
                        s = ast.unparse(prev)
                        if s.startswith(f"({target_src}).resolve().relative_to(") or s.startswith(f"{target_src}.resolve().relative_to("):
                            return True
    return False


def sites():
    """(fn, call node, target expression, description) for every file-system mutating call in the package"""
    out = []
    for fn in functions():
        for c in ast.walk(fn.node):
            if not isinstance(c, ast.Call):
                continue
            f = c.func
            if isinstance(f, ast.Attribute) and isinstance(f.value, ast.Name) and f.value.id == "shutil" and f.attr in MUTATORS_SHUTIL and len(c.args) > MUTATORS_SHUTIL[f.attr]:
                out.append((fn, c, c.args[MUTATORS_SHUTIL[f.attr]], f"shutil.{f.attr}"))
            elif isinstance(f, ast.Name) and f.id == "copytree" and len(c.args) > 1:
                out.append((fn, c, c.args[1], "copytree"))
            elif isinstance(f, ast.Attribute) and f.attr in MUTATORS_METHOD:
                out.append((fn, c, f.value, f".{f.attr}()"))
            elif isinstance(f, ast.Attribute) and f.attr == "rename" and c.args:
                out.append((fn, c, f.value, ".rename() source"))
                out.append((fn, c, c.args[0], ".rename() destination"))
            elif isinstance(f, ast.Attribute) and f.attr == "render" and isinstance(f.value, ast.Attribute) and f.value.attr == "dot" and c.args:
                out.append((fn, c, c.args[0], "graphviz render"))
            elif isinstance(f, ast.Name) and f.id == "open" and len(c.args) >= 2 and isinstance(c.args[1], ast.Constant) and any(ch in str(c.args[1].value) for ch in "wax+"):
                out.append((fn, c, c.args[0], "open(.., 'w')"))
            elif ((isinstance(f, ast.Attribute) and isinstance(f.value, ast.Name) and f.value.id in ("tempfile", "jinja2")) or isinstance(f, ast.Name)) and \
                    (f.attr if isinstance(f, ast.Attribute) else f.id) in ("NamedTemporaryFile", "TemporaryFile", "SpooledTemporaryFile", "TemporaryDirectory", "mkstemp", "mkdtemp", "FileSystemBytecodeCache"):
                # a temporary file is a file: it is created in `dir=` - without one, in the system's temp directory, which is not the output directory
                d = next((k.value for k in c.keywords if k.arg in ("dir", "directory")), c.args[0] if (f.attr if isinstance(f, ast.Attribute) else f.id) == "FileSystemBytecodeCache" and c.args else None)
                out.append((fn, c, d if d is not None else ast.Constant(value="/<system temp directory>"), f"tempfile.{f.attr if isinstance(f, ast.Attribute) else f.id}"))
            elif isinstance(f, ast.Attribute) and f.attr in ("remove", "makedirs", "mkdir", "rename", "unlink") and isinstance(f.value, ast.Name) and f.value.id == "os" and c.args:
                out.append((fn, c, c.args[0], f"os.{f.attr}"))
    return out


def obligations(prop="C19"):
    bases = class_bases()
    out = []
    counts = {}
    for fn, call, target, what in sites():
        key = f"{fn.mod.split('.')[-1]}.{fn.qual}"
        k = counts.get(key, 0)
        counts[key] = k + 1
        ev = Eval(fn, bases, call.lineno)
        v = ev.ev(target)
        tsrc = ast.unparse(target)
        ok = v.kind == "under"
        detail = ""
        texpr = target
        if isinstance(target, ast.Name) and (la := ev.local_assign(target.id)) is not None and isinstance(la.value, ast.BinOp):
            texpr = la.value            # `dest = to_path / item; dest.resolve().relative_to(..); copytree(.., dest)` is the same form as the inlined one
        if not ok and isinstance(texpr, ast.BinOp):
            # Under(R) / guarded-component with the relative_to guard in front
            l, r = ev.ev(texpr.left), ev.ev(texpr.right)
            if l.kind == "under" and r.kind == "guarded" and (_guarded(fn.node, call, tsrc) or _guarded(fn.node, call, ast.unparse(texpr))):
                ok, v = True, under(l.root)
                detail = "component checked at run time by `.resolve().relative_to(...)` directly before the call"
        deleting = what in ("shutil.rmtree", ".unlink()", ".rmdir()", "os.remove", "os.unlink", "shutil.move")
        if ok and deleting and v.root != OUT:
            # only the output directory is protected by the source-inside-output refusal: nothing else may ever be deleted
            ok = False
            detail = f"a deleting call under {v.root}: only the output directory (guarded by the refusal check) may be emptied"
        r = OR(id=f"{prop}.S.{key}.site{k}", status=PROVED if ok else REFUTED, kind="S", role="pre", backend="path-algebra", target=f"{fn.mod}.{fn.qual}",
               desc=f"{what} on `{tsrc[:70]}` targets a path under {'the output / graph directory' if not ok else v.root} " + detail)
        if not ok:
            r.witness = {"call": ast.unparse(call)[:200], "target_value": repr(v)}
            r.detail = f"target evaluates to {v}"
        out.append(r)
    # attribute contracts are established where they are assigned
    for (mod, cls, attr), root in ATTR_CONTRACTS.items():
        try:
            init = loader.find_def(mod, f"{cls}.__init__")
        except loader.TargetMissing:
            out.append(OR(id=f"{prop}.S.attr.{cls}.{attr}", status=UNKNOWN, kind="S", target=f"{mod}.{cls}.__init__", detail="initialiser not found"))
            continue
        f = Fn(mod, f"{cls}.__init__", init, cls)
        assigns = [n for n in ast.walk(init) if isinstance(n, ast.Assign) and len(n.targets) == 1 and isinstance(n.targets[0], ast.Attribute)
                   and isinstance(n.targets[0].value, ast.Name) and n.targets[0].value.id == "self" and n.targets[0].attr == attr]
        ok = bool(assigns)
        why = ""
        for a in assigns:
            v = Eval(f, bases, a.lineno).ev(a.value)
            if not (v.kind == "under" and v.root == root):
                ok, why = False, repr(v)
        out.append(OR(id=f"{prop}.S.attr.{cls}.{attr}", status=PROVED if ok else REFUTED, kind="S", role="post", backend="path-algebra", target=f"{mod}.{cls}.__init__",
                      desc=f"attribute contract: self.{attr} is a path under {root}", detail=why))
    # parameter contracts become call-site obligations at every caller
    allfns = functions()
    for (mod, qual, param), root in PARAM_CONTRACTS.items():
        if root == "ANY":
            continue
        name = qual.split(".")[-1]
        cls = qual.split(".")[0] if "." in qual else None
        try:
            callee = loader.find_def(mod, qual)
        except loader.TargetMissing:
            out.append(OR(id=f"{prop}.S.param.{qual}.{param}", status=UNKNOWN, kind="S", target=f"{mod}.{qual}", detail="function not found"))
            continue
        params = [a.arg for a in callee.args.args]
        if param not in params:
            out.append(OR(id=f"{prop}.S.param.{qual}.{param}", status=UNKNOWN, kind="S", target=f"{mod}.{qual}", detail="parameter not found"))
            continue
        pos = params.index(param) - (1 if params and params[0] == "self" else 0)
        n = 0
        for fn in allfns:
            for c in ast.walk(fn.node):
                if not isinstance(c, ast.Call):
                    continue
                fname = c.func.attr if isinstance(c.func, ast.Attribute) else (c.func.id if isinstance(c.func, ast.Name) else None)
                target_name = cls if name == "__init__" else name
                if fname != target_name:
                    continue
                arg = None
                for kwd in c.keywords:
                    if kwd.arg == param:
                        arg = kwd.value
                if arg is None and len(c.args) > pos:
                    arg = c.args[pos]
                if arg is None:
                    continue
                v = Eval(fn, class_bases(), c.lineno).ev(arg)
                ok = v.kind == "under" and (v.root == root)
                r = OR(id=f"{prop}.S.param.{qual}.{param}.caller.{fn.qual}.{n}", status=PROVED if ok else REFUTED, kind="S", role="pre", backend="path-algebra",
                       target=f"{fn.mod}.{fn.qual}", desc=f"call of {qual}: argument `{ast.unparse(arg)[:50]}` for `{param}` is a path under {root}", detail="" if ok else repr(v))
                out.append(r)
                n += 1
        if n == 0 and qual == "outputFuncWrap":
            # used through pool.map(outputFuncWrap, [(graph, graph, directory) ...]): every argument tuple built in output_graphs ends with the graph directory
            og = [f for f in allfns if f.qual == "GraphManager.output_graphs"]
            for fn in og:
                for t in ast.walk(fn.node):
                    if isinstance(t, ast.ListComp) and isinstance(t.elt, ast.Tuple) and len(t.elt.elts) == 3:
                        v = Eval(fn, class_bases(), t.lineno).ev(t.elt.elts[-1])
                        ok = v.kind == "under" and v.root == root
                        out.append(OR(id=f"{prop}.S.param.{qual}.{param}.tuple.{n}", status=PROVED if ok else REFUTED, kind="S", role="pre", backend="path-algebra",
                                      target=f"{fn.mod}.{fn.qual}", desc=f"argument tuple `{ast.unparse(t.elt)[:60]}` handed to outputFuncWrap ends with a path under {root}",
                                      detail="" if ok else repr(v)))
                        n += 1
        if n == 0:
            out.append(OR(id=f"{prop}.S.param.{qual}.{param}.callers", status=UNKNOWN, kind="S", target=f"{mod}.{qual}", detail="no caller found"))
    return out


def outfile_obligations(prop="C19"):
    """every `outfile` property of the page classes returns a path under the output directory"""
    out = []
    bases = class_bases()
    _, tree = loader.module_source("ford.output")
    for cls in [n for n in tree.body if isinstance(n, ast.ClassDef)]:
        for m in cls.body:
            if isinstance(m, ast.FunctionDef) and m.name == "outfile":
                rets = [r for r in ast.walk(m) if isinstance(r, ast.Return) and r.value is not None]
                if not rets:
                    continue      # abstract (raises NotImplementedError)
                fn = Fn("ford.output", f"{cls.name}.outfile", m, cls.name)
                for i, r in enumerate(rets):
                    v = Eval(fn, bases, r.lineno).ev(r.value)
                    ok = v.kind == "under" and v.root == OUT
                    out.append(OR(id=f"{prop}.S.output.{cls.name}.outfile.ret{i}", status=PROVED if ok else REFUTED, kind="S", role="post", backend="path-algebra",
                                  target=f"ford.output.{cls.name}.outfile", desc=f"ensures: `{ast.unparse(r.value)[:60]}` is a path under OUT", detail="" if ok else repr(v)))
    if not out:
        out.append(OR(id=f"{prop}.S.output.outfile.anchor", status=UNKNOWN, kind="S", target="ford.output", detail="no outfile property found"))
    return out


def refusal_obligations(prop="C19"):
    """the source-inside-output refusal: tested for every source directory, against the directory itself and all its ancestors, in a function (and
    after functions) that contain no file-system mutating call; the output directory is excluded from source discovery"""
    out = []
    src = open(loader.REPO + "/ford/__init__.py", encoding="utf-8").read()
    tree = ast.parse(src)
    pa = [n for n in tree.body if isinstance(n, ast.FunctionDef) and n.name == "parse_arguments"]
    if len(pa) != 1:
        return [OR(id=f"{prop}.S.refusal.anchor", status=UNKNOWN, kind="S", target="ford.parse_arguments", detail="parse_arguments not found")]
    loops = [n for n in ast.walk(pa[0]) if isinstance(n, ast.For) and "src_dir" in ast.unparse(n.iter)]
    ok_loop = False
    conditional = None
    for lp in loops:
        for st in ast.walk(lp):
            if isinstance(st, ast.If) and any(isinstance(x, ast.Raise) for x in ast.walk(st)):
                t = ast.unparse(st.test).replace(" ", "")
                var = lp.target.id if isinstance(lp.target, ast.Name) else "?"
                if t == f"proj_data.output_dirin({var},*{var}.parents)":
                    ok_loop = ast.unparse(lp.iter).replace(" ", "") == "proj_data.src_dir"
                    # "whatever the options": the raise is a statement of that branch itself, not under a further condition (`if not force: raise`)
                    if not any(isinstance(x, ast.Raise) for x in st.body):
                        inner = next((x for x in ast.walk(st) if isinstance(x, ast.If) and x is not st and any(isinstance(y, ast.Raise) for y in ast.walk(x))), None)
                        conditional = ast.unparse(inner.test) if inner is not None else "?"
    r_unc = OR(id=f"{prop}.S.refusal.whatever_the_options", status=REFUTED if conditional else PROVED, kind="S", role="post", backend="ast", target="ford.parse_arguments",
               desc="the refusal is raised by the branch that found the source directory inside the output directory, under no further condition")
    if conditional:
        r_unc.witness = {"the raise stands under": conditional}
        r_unc.detail = f"with `{conditional}` false the run goes on and write-out begins by removing the output directory, sources included"
    out.append(r_unc)
    out.append(OR(id=f"{prop}.S.refusal.every_source_dir_and_all_ancestors", status=PROVED if ok_loop else REFUTED, kind="S", role="post", backend="ast",
                  target="ford.parse_arguments", desc="raises iff output_dir equals some source directory or one of its ancestors: the test `output_dir in (srcdir, *srcdir.parents)` "
                  "guards a raise inside a loop over every proj_data.src_dir"))
    mut = [(fn.qual, what) for fn, call, target, what in sites() if fn.mod in ("ford.__init__", "ford.settings") and fn.qual in ("parse_arguments", "load_settings") or
           (fn.mod == "ford.settings")]
    out.append(OR(id=f"{prop}.S.refusal.nothing_written_before_the_check", status=PROVED if not mut else REFUTED, kind="S", role="frame", backend="ast",
                  target="ford.parse_arguments / ford.load_settings / ford.settings", desc="no file-system mutating call site in the code that runs before the refusal check",
                  detail=repr(mut)[:300]))
    # normalisation precedes the check (so both sides are absolute, resolved paths)
    body = pa[0].body
    idx = lambda pred: next((i for i, st in enumerate(body) if pred(ast.unparse(st))), None)
    a, b = idx(lambda s: "normalise_paths(" in s), idx(lambda s: "srcdir.parents" in s or ".parents" in s)
    out.append(OR(id=f"{prop}.S.refusal.paths_normalised_first", status=PROVED if (a is not None and b is not None and a < b) else REFUTED, kind="S", role="pre", backend="ast",
                  target="ford.parse_arguments", desc="normalise_paths() runs before the refusal check"))
    out += output_dir_excluded(prop)
    out.append(normalise_path_resolves(prop, "the refusal compares such paths component-wise"))
    # the two roots are path-typed settings: normalise_paths makes exactly the Path / List[Path] options absolute relative to the project file; anything else stays a string
    # that is later read relative to the working directory
    st = loader.find_def("ford.settings", "ProjectSettings")
    ann = {n.target.id: ast.unparse(n.annotation) for n in st.body if isinstance(n, ast.AnnAssign) and isinstance(n.target, ast.Name)}
    for opt in ("output_dir", "graph_dir"):
        ok = "Path" in ann.get(opt, "")
        r = OR(id=f"{prop}.S.settings.{opt}.is_a_path_option", status=PROVED if ok else REFUTED, kind="S", role="pre", backend="ast", target="ford.settings.ProjectSettings",
               desc=f"`{opt}: {ann.get(opt, '<missing>')}`: declared as a path, hence made absolute relative to the project file by normalise_paths")
        if not ok:
            r.witness = {"annotation": ann.get(opt)}
            r.detail = f"{opt} stays as written and is resolved against the working directory: files are written outside the configured directory when FORD is started elsewhere"
        out.append(r)
    return out


def output_dir_excluded(prop, replay=None):
    """the output directory never takes part in the search for source files: ProjectSettings.__post_init__ appends it to exclude_dir unconditionally (a statement of the
    function body, not under a branch), and parse_arguments does so again for the final value once the command line has been applied and the paths are normalised"""
    out = []
    pi = loader.find_def("ford.settings", "ProjectSettings.__post_init__")
    ok = any(isinstance(n, ast.Expr) and ast.unparse(n).replace(" ", "") == "self.exclude_dir.append(self.output_dir)" for n in pi.body)
    r = OR(id=f"{prop}.S.settings.output_dir_excluded_from_discovery", status=PROVED if ok else REFUTED, kind="S", role="post", backend="ast",
           target="ford.settings.ProjectSettings.__post_init__", desc="the output directory is added to exclude_dir whatever exclude_dir held before")
    if not ok:
        r.detail = "no unconditional `self.exclude_dir.append(self.output_dir)` in __post_init__"
        r.replay = replay() if replay else None
    out.append(r)
    try:
        pa = [n for n in ast.walk(ast.parse(open(os.path.join(os.path.dirname(loader.module_path("ford.output")), "__init__.py"), encoding="utf-8").read()))
              if isinstance(n, ast.FunctionDef) and n.name == "parse_arguments"][0]
        body = pa.body
        inorm = next((i for i, st in enumerate(body) if "normalise_paths(" in ast.unparse(st)), None)
        iapp = next((i for i, st in enumerate(body) if "exclude_dir.append(proj_data.output_dir)" in ast.unparse(st).replace(" ", "")), None)
        ok2 = inorm is not None and iapp is not None and iapp > inorm
        if ok2 and isinstance(body[iapp], ast.If):
            ok2 = ast.unparse(body[iapp].test).replace(" ", "") == "proj_data.output_dirnotinproj_data.exclude_dir"
    except Exception as e:
        ok2 = False
    r2 = OR(id=f"{prop}.S.parse_arguments.final_output_dir_excluded_from_discovery", status=PROVED if ok2 else REFUTED, kind="S", role="post", backend="ast", target="ford.parse_arguments",
            desc="after the command line has been applied and the paths are normalised, the output directory in force is in exclude_dir")
    if not ok2:
        r2.detail = "parse_arguments does not add the final output_dir to exclude_dir after normalise_paths()"
        r2.replay = replay() if replay else None
    out.append(r2)
    return out


def normalise_path_resolves(prop, why, replay=None):
    np = loader.find_def("ford.utils", "normalise_path")
    ret = [n for n in ast.walk(np) if isinstance(n, ast.Return) and n.value is not None]
    # the returned expression ends in .resolve() (pathlib: absolute, '..' collapsed, symbolic links followed)
    ok = bool(ret) and all(isinstance(r.value, ast.Call) and isinstance(r.value.func, ast.Attribute) and r.value.func.attr == "resolve" for r in ret)
    r = OR(id=f"{prop}.S.utils.normalise_path.resolves", status=PROVED if ok else REFUTED, kind="S", role="post", backend="ast", target="ford.utils.normalise_path",
           desc=f"normalise_path returns an absolute path with symlinks and '..' resolved ({why})")
    if not ok:
        r.witness = {"returns": [ast.unparse(x) for x in ret]}
        r.detail = "the returned path is not canonical: a path through '..' or a symbolic link differs textually from its resolved form"
        if replay:
            r.replay = replay()
    return r


def glob_targets_are_owned(prop="C19"):
    """the path-algebra rule `x in dst.rglob(..)  =>  x is under dst` speaks about names; a mutating call THROUGH such a name (touch, write) stays under dst only if the
    entry is not a symbolic link to somewhere else.  Every tree a FORD function globs and then mutates must therefore have been created without copying links as links."""
    out = []
    for modname in ("ford.output", "ford.graphs", "ford.utils", "ford.fortran_project", "ford.pagetree"):
        try:
            tree = loader.module_source(modname)[1]
        except Exception:
            continue
        for fn in [n for n in ast.walk(tree) if isinstance(n, (ast.FunctionDef,))]:
            globs_and_mutates = any(isinstance(st, ast.For) and any(g in ast.unparse(st.iter) for g in (".rglob(", ".glob(", ".iterdir(")) and
                                    any(isinstance(c, ast.Call) and isinstance(c.func, ast.Attribute) and c.func.attr in MUTATORS_METHOD for c in ast.walk(st)) for st in ast.walk(fn))
            if not globs_and_mutates:
                continue
            bad = []
            for c in ast.walk(fn):
                if isinstance(c, ast.Call) and ast.unparse(c.func) in ("shutil.copytree", "copytree"):
                    for k in c.keywords:
                        if k.arg == "symlinks" and not (isinstance(k.value, ast.Constant) and k.value.value is False):
                            bad.append(ast.unparse(c))
            out.append(OR(id=f"{prop}.S.{modname.split('.')[-1]}.{fn.name}.globbed_tree_holds_no_foreign_links", status=PROVED if not bad else REFUTED, kind="S", role="pre", backend="ast",
                          target=f"{modname}.{fn.name}", desc="a tree whose entries are mutated through a glob was copied with symlinks=False (links are followed while copying, so every entry "
                          "under the destination is a file or directory of the destination itself)", witness=None if not bad else {"copy call": bad}))
    if not out:
        out.append(OR(id=f"{prop}.S.globbed_trees.none", status=PROVED, kind="S", role="pre", backend="ast", target="ford", desc="no function mutates entries obtained from a glob"))
    return out

"""Engine A contracts for scoping (C07): the host-association block of FortranCodeUnit.correlate and the resolvers."""
from __future__ import annotations
import z3
from pyvc.contract import *
from pyvc.blocks import between
from pyvc.values import *
from contracts.heapmodel import FIELDS, class_model
from contracts.display import H, sel, lst, base

I, S, B = z3.IntSort(), z3.StringSort(), z3.BoolSort()
AH, AV = z3.ArraySort(S, B), z3.ArraySort(S, I)
# fold of "table[lower(x.name)] = x for x in seq[0:k]" over a base table: spec functions with ground unfolding
FH = z3.Function("TABFOLD_H", z3.SeqSort(I), I, AH, z3.ArraySort(I, S), AH)
FV = z3.Function("TABFOLD_V", z3.SeqSort(I), I, AV, z3.ArraySort(I, S), AV)


def fold_unfold(seq, k, bh, bv, names):
    key = LOWER(z3.Select(names, seq[k]))
    return [FH(seq, 0, bh, names) == bh, FV(seq, 0, bv, names) == bv,
            FH(seq, k + 1, bh, names) == z3.Store(FH(seq, k, bh, names), key, True),
            FV(seq, k + 1, bv, names) == z3.Store(FV(seq, k, bv, names), key, seq[k])]


def dct(v, f, o):
    d = SDict(sel(H(v, f), o), "str", "ref")
    return v.heap.dict_has(d), v.heap.dict_val(d)


def dct0(v, f, o):
    d = SDict(sel(v._p.heap.f0[f], o) if f in v._p.heap.f0 else sel(H(v, f), o), "str", "ref")
    return v.heap.dict_has0(d), v.heap.dict_val0(d)


TABLES = [("all_absinterfaces", "absinterfaces"), ("all_types", "types"), ("all_vars", "variables")]
EMPTY_H, EMPTY_V = z3.K(S, z3.BoolVal(False)), z3.K(S, z3.IntVal(0))


def host_block(prop="C07"):
    """FortranCodeUnit.correlate, host-association block: oracle  visible(scope) = host tables overlaid by the scope's own
    declarations (locals win), and NOTHING flows back into the host's (or any other scope's) tables."""
    c = base(Contract("ford.sourceform", "FortranCodeUnit.correlate", prop))
    c.qual_suffix = "host_block"
    c.block_select = between("self.all_procs", "if isinstance(self, FortranSubmodule)")
    c.dropped.append("block contract: only the statements from the first `self.all_procs...` statement up to `if isinstance(self, FortranSubmodule)`")
    c.param("self", TRef("FortranCodeUnit"))
    c.param("project", TOpaque("project"))
    E = lambda v: V(v._e, v._e.entry)
    ALLT = ["all_procs", "all_absinterfaces", "all_types", "all_vars"]

    def setup(eng, path):
        for f in ALLT + ["absinterfaces", "types", "variables", "args", "parent", "retvar", "name"]:
            eng.field_array(path, f)
        path.heap._dmap(SDict(0, "str", "ref"))
        path.heap._lmap("ref")
    c.extra_setup.append(setup)
    par = lambda v: sel(H(v, "parent"), v.self)
    phas = lambda v, f: z3.And(par(v) != 0, z3.Select(v._e.has_array(v._p, f), par(v)))
    pid = lambda v, f: sel(H(v, f), par(v))

    def req(v):
        s = v.self
        a0 = v.heap.alloc0
        conj = [par(v) != s, par(v) >= 0, par(v) < a0]
        ids = [sel(H(v, "all_procs"), s)] + [pid(v, f) for f in ALLT]
        conj.append(z3.Distinct(*ids))     # tables are distinct dict objects
        conj += [z3.And(i > 0, i < a0) for i in ids]
        for f in ("absinterfaces", "types", "variables"):
            conj.append(z3.And(sel(H(v, f), s) > 0, sel(H(v, f), s) < a0))
        conj.append(z3.And(sel(H(v, "args"), par(v)) > 0, sel(H(v, "args"), par(v)) < a0))
        return z3.And(*conj)
    c.requires("shape", req)

    def host(e, tab):
        d = SDict(pid(e, tab), "str", "ref")
        return (z3.If(phas(e, tab), e.heap.dict_has(d), EMPTY_H), z3.If(phas(e, tab), e.heap.dict_val(d), EMPTY_V))

    def cur(v, tab):
        d = SDict(sel(H(v, tab), v.self), "str", "ref")
        return v.heap.dict_has(d), v.heap.dict_val(d)

    def folded(e, tab, lname, upto=None):
        seq = lst(e, lname, e.self)
        bh, bv = host(e, tab)
        n = z3.Length(seq) if upto is None else upto
        return FH(seq, n, bh, H(e, "name")), FV(seq, n, bv, H(e, "name"))

    def table_done(v, tab, lname):
        e = E(v)
        h, val = cur(v, tab)
        fh, fv = folded(e, tab, lname)
        return z3.And(h == fh, val == fv)

    def frame_ok(v):
        e = E(v)
        out = []
        for f in ALLT + ["absinterfaces", "types", "variables", "args", "parent", "retvar", "name"]:
            if f in ALLT:
                continue
            out.append(H(v, f) == H(e, f))
        for f in ("absinterfaces", "types", "variables"):
            out.append(lst(v, f, v.self) == lst(e, f, e.self))
        out.append(v.heap.list_get(SList(sel(H(e, "args"), par(e)), "ref")) == e.heap.list_get(SList(sel(H(e, "args"), par(e)), "ref")))
        out.append(procs_done(v))
        return z3.And(*out)

    def procs_done(v):
        # oracle for all_procs: host entries overlaid by the unit's own table as built by _cleanup (locals win)
        e = E(v)
        d0 = SDict(sel(H(e, "all_procs"), e.self), "str", "ref")
        lh, lv = e.heap.dict_has(d0), e.heap.dict_val(d0)
        hh, hv = host(e, "all_procs")
        h, val = cur(v, "all_procs")
        from pyvc.engine import map_or, map_ite
        return z3.And(h == map_or(lh, hh), val == map_ite(lh, lv, hv))

    def args_seq(e):
        l = SList(sel(H(e, "args"), par(e)), "ref")
        return z3.If(phas(e, "args"), e.heap.list_get(l), z3.Empty(z3.SeqSort(I)))

    def host_and_dummies(e, upto=None):
        """the host's variable table overlaid by the host's dummy arguments (first `upto` of them)"""
        bh, bv = host(e, "all_vars")
        aseq = args_seq(e)
        n = z3.Length(aseq) if upto is None else upto
        return FH(aseq, n, bh, H(e, "name")), FV(aseq, n, bv, H(e, "name"))

    def vars_base(e):
        """... and by the host's result variable: everything a contained scope sees by host association"""
        ah, av = host_and_dummies(e)
        rv = z3.If(phas(e, "retvar"), sel(H(e, "retvar"), par(e)), 0)
        key = LOWER(sel(H(e, "name"), rv))
        return z3.If(rv != 0, z3.Store(ah, key, True), ah), z3.If(rv != 0, z3.Store(av, key, rv), av)

    def vars_done(v, upto=None):
        e = E(v)
        h, val = cur(v, "all_vars")
        bh, bv = vars_base(e)
        seq = lst(e, "variables", e.self)
        n = z3.Length(seq) if upto is None else upto
        return z3.And(h == FH(seq, n, bh, H(e, "name")), val == FV(seq, n, bv, H(e, "name")))

    def mk_loop(i):
        tab, lname = TABLES[i]

        def inv_fold(v):
            e = E(v)
            h, val = cur(v, tab)
            fh, fv = folded(e, tab, lname, v.k)
            return z3.And(h == fh, val == fv, v.it.seq == lst(e, lname, e.self))

        def unfold(v):
            e = E(v)
            bh, bv = host(e, tab)
            return fold_unfold(lst(e, lname, e.self), v.k, bh, bv, H(e, "name"))
        invs = [("table_is_fold_prefix", inv_fold), ("frame", frame_ok)]
        for j in range(i):
            invs.append((f"earlier_{TABLES[j][0]}", lambda v, j=j: table_done(v, *TABLES[j])))
            invs.append((f"field_{TABLES[j][0]}", lambda v, j=j: z3.BoolVal(True)))
        c.loop(i, invariants=invs, unfold=unfold, variant=lambda v: z3.Length(v.it.seq) - v.k)
    for i in range(2):
        mk_loop(i)
    earlier = [(f"earlier_{t}", lambda v, t=t, l=l: table_done(v, t, l)) for t, l in TABLES[:2]]

    # loop 2: the host's dummy arguments folded on top of the host's variable table
    def inv_args(v):
        e = E(v)
        h, val = cur(v, "all_vars")
        ah, av = host_and_dummies(e, v.k)
        return z3.And(h == ah, val == av, v.it.seq == args_seq(e))

    def unfold_args(v):
        e = E(v)
        bh, bv = host(e, "all_vars")
        return fold_unfold(v.it.seq, v.k, bh, bv, H(e, "name"))
    c.loop(2, invariants=[("vars_table_is_fold_prefix_of_host_dummies", inv_args), ("frame", frame_ok)] + earlier,
           unfold=unfold_args, variant=lambda v: z3.Length(v.it.seq) - v.k)

    # loop 3: the unit's own variables on top of everything accessible by host association (Fortran: a local declaration hides the host's entity of that name)
    def inv_vars(v):
        e = E(v)
        return z3.And(vars_done(v, v.k), v.it.seq == lst(e, "variables", e.self))

    def unfold_vars(v):
        e = E(v)
        bh, bv = vars_base(e)
        return fold_unfold(lst(e, "variables", e.self), v.k, bh, bv, H(e, "name"))
    c.loop(3, invariants=[("vars_table_is_fold_prefix_of_locals", inv_vars), ("frame", frame_ok)] + earlier,
           unfold=unfold_vars, variant=lambda v: z3.Length(v.it.seq) - v.k)

    # ---- postconditions
    for tab, lname in TABLES[:2]:
        c.ensures(f"{tab}_is_host_overlaid_by_locals", lambda v0, res, v1, tab=tab, lname=lname: table_done(v1, tab, lname))

    c.ensures("all_vars_is_host_and_host_dummies_overlaid_by_locals", lambda v0, res, v1: vars_done(v1))
    c.ensures("all_procs_locals_win_over_host", lambda v0, res, v1: procs_done(v1))
    for f in ALLT:
        def fr(v0, res, v1, f=f):
            d = SDict(pid(v0, f), "str", "ref")
            return z3.Implies(phas(v0, f), z3.And(v1.heap.dict_has(d) == v0.heap.dict_has(d), v1.heap.dict_val(d) == v0.heap.dict_val(d)))
        c.ensures(f"frame_parent_{f}_unchanged", fr, role="frame")
    c.no_raise = True
    return c


# ------------------------------------------------------------------ submodules: which scope a submodule inherits its tables from
OPH_H = z3.Function("OWN_PROCS_HIDE_H", I, I, AH)        # result of the helper own_procs_hide(host table) for a given (unit, host table): has / value maps
OPH_V = z3.Function("OWN_PROCS_HIDE_V", I, I, AV)
MPH = z3.Function("OPH_FOLD_H", z3.SeqSort(S), I, AH, AV, AH, AV, z3.ArraySort(I, B), AH)
MPV = z3.Function("OPH_FOLD_V", z3.SeqSort(S), I, AH, AV, AH, AV, z3.ArraySort(I, B), AV)


def own_procs_hide(prop="C07"):
    """the helper of the submodule block: host procedures overlaid by the submodule's own (own declarations hide the host's), except that the
    implementation of a separate module procedure gives way to its interface in the host (they are one procedure)"""
    from pyvc.engine import map_or, map_ite
    c = base(Contract("ford.sourceform", "FortranCodeUnit.correlate.own_procs_hide", prop))
    c.param("host_procs", TDict("str", "ref"))
    c.param("self", TRef("FortranCodeUnit"))          # free variable of the closure
    c.fields.update({"module": "bool"})
    c.hints["dict"] = "ref"
    E = lambda v: V(v._e, v._e.entry)

    def setup(eng, path):
        eng.field_array(path, "all_procs")
        eng.field_array(path, "module")
        path.heap._dmap(SDict(0, "str", "ref"))
    c.extra_setup.append(setup)
    own = lambda e: SDict(sel(H(e, "all_procs"), e.self), "str", "ref")
    c.requires("tables_are_distinct", lambda v: z3.And(sel(H(v, "all_procs"), v.self) != v.val("host_procs").id, sel(H(v, "all_procs"), v.self) > 0,
                                                       sel(H(v, "all_procs"), v.self) < v.heap.alloc0))

    def ctx(e):
        hp = e.val("host_procs")
        return (e.heap.dict_has(hp), e.heap.dict_val(hp), e.heap.dict_has(own(e)), e.heap.dict_val(own(e)))

    def is_impl(e, x):
        return z3.And(x != 0, z3.Select(e._e.has_array(e._p, "module"), x), sel(H(e, "module"), x))

    def unfold(v):
        e = E(v)
        hh, hv, oh, ov = ctx(e)
        seq, k = v.it.seq, v.k
        key = seq[k]
        base_h, base_v = map_or(hh, oh), map_ite(oh, ov, hv)
        FH_, FV_ = c._fold
        give_way = z3.And(z3.Select(hh, key), is_impl(e, z3.Select(ov, key)))
        return [FH_(0) == base_h, FV_(0) == base_v,
                FH_(k + 1) == z3.If(give_way, z3.Store(FH_(k), key, True), FH_(k)),
                FV_(k + 1) == z3.If(give_way, z3.Store(FV_(k), key, z3.Select(hv, key)), FV_(k))]
    # the fold is over this call's iteration sequence: plain uninterpreted functions of the index
    c._fold = (z3.Function("OPH_H_AFTER", I, AH), z3.Function("OPH_V_AFTER", I, AV))
    c._ks = [None]

    def inv(v):
        c._ks[0] = v.it.seq
        m = v.val("merged")
        return z3.And(v.heap.dict_has(m) == c._fold[0](v.k), v.heap.dict_val(m) == c._fold[1](v.k))

    def frame(v):
        e = E(v)
        hp = e.val("host_procs")
        return z3.And(v.heap.dict_has(hp) == e.heap.dict_has(hp), v.heap.dict_val(hp) == e.heap.dict_val(hp), v.heap.dict_has(own(e)) == e.heap.dict_has(own(e)),
                      v.heap.dict_val(own(e)) == e.heap.dict_val(own(e)), H(v, "all_procs") == H(e, "all_procs"), H(v, "module") == H(e, "module"), v.self == e.self,
                      v.val("merged").id != hp.id, v.val("merged").id != own(e).id)
    c.loop(0, invariants=[("merged_is_the_fold", inv), ("frame", frame)], unfold=unfold, variant=lambda v: z3.Length(v.it.seq) - v.k)

    def post(v0, res, v1):
        ks = c._ks[0]
        hh, hv, oh, ov = ctx(v0)
        fh, fv = c._fold[0](z3.Length(ks)), c._fold[1](z3.Length(ks))
        return z3.And(v1.heap.dict_has(res) == fh, v1.heap.dict_val(res) == fv)
    c.ensures("host_procedures_overlaid_by_own_except_module_procedure_implementations", post)

    def pointwise(v0, res, v1):
        # consequences that need no induction: every visible key comes from one of the two tables, and an own entry that is not a module-procedure
        # implementation is never replaced (stated on the entry overlay, before the exceptions are applied)
        hh, hv, oh, ov = ctx(v0)
        return z3.And(c._fold[0](0) == map_or(hh, oh), c._fold[1](0) == map_ite(oh, ov, hv))
    c.ensures("starts_from_own_over_host", pointwise)
    c.ensures("inputs_untouched_and_result_is_new", lambda v0, res, v1: z3.And(v1.heap.dict_has(v0.val("host_procs")) == v0.heap.dict_has(v0.val("host_procs")),
                                                                              v1.heap.dict_has(own(v0)) == v0.heap.dict_has(own(v0)), v1.heap.dict_val(own(v0)) == v0.heap.dict_val(own(v0)),
                                                                              res.id > v0.heap.alloc0), role="frame")
    c.no_raise = True
    return c


def submodule_block(prop="C07"):
    """FortranCodeUnit.correlate, the first `if isinstance(self, FortranSubmodule)` statement: a submodule whose parent is a submodule sees that parent's
    procedure / abstract-interface / type tables, a direct child of a module the ancestor module's tables (and its variables) - by host association, so the
    submodule's OWN declarations hide the inherited ones; it is registered in the `descendants` of exactly that parent."""
    from pyvc.engine import map_or, map_ite
    from pyvc.blocks import TargetMissing
    import ast
    c = base(Contract("ford.sourceform", "FortranCodeUnit.correlate", prop))
    c.qual_suffix = "submodule_block"

    def select(fn):
        hits = [st for st in fn.body if isinstance(st, ast.If) and ast.unparse(st.test) == "isinstance(self, FortranSubmodule)"]
        if not hits:
            raise TargetMissing("no `if isinstance(self, FortranSubmodule):` statement in correlate")
        return [hits[0]]
    c.block_select = select
    c.dropped.append("block contract: the first top-level statement `if isinstance(self, FortranSubmodule): ...` of FortranCodeUnit.correlate; its helper own_procs_hide "
                     "is a callee with its own contract")
    c.param("self", TRef("FortranCodeUnit"))
    c.param("project", TOpaque("project"))
    cm = class_model()
    TABS = ["all_procs", "all_absinterfaces", "all_types", "all_vars"]
    c.closure_contracts = {"own_procs_hide"}

    def setup(eng, path):
        for f in TABS + ["parent_submodule", "ancestor_module", "descendants"]:
            eng.field_array(path, f)
        path.heap._dmap(SDict(0, "str", "ref"))
        path.heap._lmap("ref")
    c.extra_setup.append(setup)
    c.fields.update({"parent_submodule": "ref", "ancestor_module": "ref", "descendants": "list:ref"})
    c.hints["dict"] = "ref"
    ps = lambda v: sel(H(v, "parent_submodule"), v.self)
    am = lambda v: sel(H(v, "ancestor_module"), v.self)
    is_sub = lambda v: cm.is_a(v.self, "FortranSubmodule")
    from_sub = lambda v: z3.And(ps(v) != 0, cm.is_a(ps(v), "FortranSubmodule"))
    from_mod = lambda v: z3.And(z3.Not(from_sub(v)), am(v) != 0, cm.is_a(am(v), "FortranModule"))

    def call_oph(eng, path, e, args, recv):
        host = args[0]
        if not isinstance(host, SDict):
            raise EngineError("own_procs_hide called with a non-dict")
        new = eng.new_dict(path, e, key="str", val="ref") if hasattr(eng, "new_dict") else None
        if new is None:
            raise EngineError("engine cannot allocate a dict for a callee result")
        me = path.env["self"].t
        path.heap.dict_set(new, OPH_H(me, host.id), OPH_V(me, host.id))
        return new
    c.calls["own_procs_hide"] = call_oph
    c.assumed.append("callee contract: own_procs_hide(host table) returns a new dict whose contents are a function of (the unit, the host table) - what that function is, is the "
                     "subject of the helper's own contract (C07.A.FortranCodeUnit.correlate.own_procs_hide)")

    def req(v):
        a0 = v.heap.alloc0
        ids = [sel(H(v, t), o) for t in TABS for o in (v.self, ps(v), am(v))]
        conj = [z3.And(i > 0, i < a0) for i in ids]
        conj.append(z3.Distinct(*[sel(H(v, t), v.self) for t in TABS] + [sel(H(v, t), ps(v)) for t in TABS] + [sel(H(v, t), am(v)) for t in TABS]))
        conj += [ps(v) != v.self, am(v) != v.self, ps(v) >= 0, am(v) >= 0, ps(v) < a0, am(v) < a0,
                 z3.Or(ps(v) == 0, am(v) == 0, ps(v) != am(v))]
        for o in (ps(v), am(v)):
            conj.append(z3.And(sel(H(v, "descendants"), o) > 0, sel(H(v, "descendants"), o) < a0))
        conj.append(z3.Distinct(sel(H(v, "descendants"), ps(v)), sel(H(v, "descendants"), am(v))))
        return z3.And(*conj)
    c.requires("shape", req)

    def own_over(v0, v1, tab, src):
        h0, x0 = dct(v0, tab, v0.self)
        hs, xs = dct(v0, tab, src)
        h1, x1 = dct(v1, tab, v0.self)
        return z3.And(h1 == map_or(hs, h0), x1 == map_ite(h0, x0, xs))

    def procs_from(v0, v1, src):
        h1, x1 = dct(v1, "all_procs", v0.self)
        hid = sel(H(v0, "all_procs"), src)
        return z3.And(h1 == OPH_H(v0.self, hid), x1 == OPH_V(v0.self, hid))

    def same(v0, v1, tab):
        h0, x0 = dct(v0, tab, v0.self)
        h1, x1 = dct(v1, tab, v0.self)
        return z3.And(h1 == h0, x1 == x0)

    def host_untouched(v0, v1, src):
        out = []
        for t in TABS:
            h0, x0 = dct(v0, t, src)
            d = SDict(sel(H(v0, t), src), "str", "ref")
            out.append(z3.And(v1.heap.dict_has(d) == h0, v1.heap.dict_val(d) == x0))
        return z3.And(*out)
    desc = lambda v, o: v.heap.list_get(SList(sel(H(v, "descendants"), o), "ref"))

    def post(v0, res, v1):
        s = v0.self
        sub_case = z3.And(procs_from(v0, v1, ps(v0)), own_over(v0, v1, "all_absinterfaces", ps(v0)), own_over(v0, v1, "all_types", ps(v0)), same(v0, v1, "all_vars"),
                          desc(v1, ps(v0)) == z3.Concat(desc(v0, ps(v0)), z3.Unit(s)), desc(v1, am(v0)) == desc(v0, am(v0)), host_untouched(v0, v1, ps(v0)))
        mod_case = z3.And(procs_from(v0, v1, am(v0)), *[own_over(v0, v1, t, am(v0)) for t in TABS[1:]],
                          desc(v1, am(v0)) == z3.Concat(desc(v0, am(v0)), z3.Unit(s)), host_untouched(v0, v1, am(v0)))
        none = z3.And(*[same(v0, v1, t) for t in TABS])
        return z3.If(z3.Not(is_sub(v0)), none, z3.If(from_sub(v0), sub_case, z3.If(from_mod(v0), mod_case, none)))
    c.ensures("own_declarations_over_the_tables_of_the_parent_submodule_else_of_the_ancestor_module_which_stay_untouched", post)
    c.no_raise = True
    return c


def extension_order(prop="C07"):
    """call-site obligation for toposort_flatten in FortranCodeUnit.correlate: the types of a scope are correlated in an order computed from the map
    {type: {its resolved local parent}} - so that a type's parent has merged what it inherits before the type itself is correlated"""
    import ast
    from harness import loader
    from harness.core import OR, PROVED, REFUTED, UNKNOWN
    fn = loader.find_def("ford.sourceform", "FortranCodeUnit.correlate")
    oid = f"{prop}.S.FortranCodeUnit.correlate.types_correlated_in_extension_order"
    tgt = "ford.sourceform.FortranCodeUnit.correlate"
    build = [st for st in fn.body if isinstance(st, ast.For) and ast.unparse(st.iter) == "self.types" and "typelist" in ast.unparse(st)]
    order = [st for st in fn.body if isinstance(st, ast.Assign) and ast.unparse(st.targets[0]) == "typeorder"]
    walk = [st for st in fn.body if isinstance(st, ast.For) and any(isinstance(x, ast.Call) and ast.unparse(x.func).endswith(".correlate") for x in ast.walk(st))
            and ast.unparse(st.target) == "dtype"]
    if len(build) != 1 or len(order) != 1 or len(walk) != 1:
        return [OR(id=oid, status=UNKNOWN, kind="S", role="pre", backend="ast", target=tgt, detail=f"statements not found in the recognised form (map loop {len(build)}, order {len(order)}, "
                   f"correlating loop {len(walk)}); the bounded stand-in decides")]
    b = build[0]
    ok_map = (len(b.body) == 1 and isinstance(b.body[0], ast.If)
              and [ast.unparse(s) for s in b.body[0].body] == ["dtype.extends = self.all_types[dtype.extends.lower()]", "typelist[dtype] = set([dtype.extends])"]
              and [ast.unparse(s) for s in b.body[0].orelse] == ["typelist[dtype] = set([])"]
              and ast.unparse(b.body[0].test) == "dtype.extends and dtype.extends.lower() in self.all_types")
    ok_order = ast.unparse(order[0].value) == "toposort.toposort_flatten(typelist)"
    ok_walk = ast.unparse(walk[0].iter) == "typeorder"
    ok = ok_map and ok_order and ok_walk
    return [OR(id=oid, status=PROVED if ok else REFUTED, kind="S", role="pre", backend="ast", target=tgt,
               desc="every type maps to the set holding its resolved local parent (or the empty set), the order is toposort_flatten of that map (library contract: dependencies first), "
                    "and the correlating loop follows that order",
               witness=None if ok else {"dependency map as specified": ok_map, "order is toposort_flatten(typelist)": ok_order, "loop iterates typeorder": ok_walk,
                                        "order expression": ast.unparse(order[0].value), "loop iterates": ast.unparse(walk[0].iter)})]


# ---------------------------------------------------------------- find_used_modules: the parent of a submodule
def parent_submodule_block(prop="C07"):
    """the loop `for submod in submodules` of find_used_modules that replaces the *name* of a submodule's parent by the submodule object.  A submodule name is unique
    among the descendants of one module only (F2018 14.2.3): the parent of `submodule (m2:impl) child` is the submodule impl *of m2*.  Oracle: the first submodule
    whose lower-cased name is the parent name and whose ancestor module has the entity's ancestor name; none found: the name stays."""
    SI = z3.SeqSort(I)
    NOHIT = z3.Function("PSM_NOHIT", SI, I, S, S, B)
    UNITNAME = z3.Function("UNIT_NAME_OF", I, S)            # _unit_name(x): lower-cased name of a module given as object or still as text
    c = base(Contract("ford.fortran_project", "find_used_modules", prop))
    c.qual_suffix = "parent_submodule"
    c.block_select = between("for submod in submodules", None, container="if hasattr(entity, 'parent_submodule') and entity.parent_submodule")
    c.dropped.append("block contract: the loop `for submod in submodules` under `if hasattr(entity, 'parent_submodule') and entity.parent_submodule:` "
                     "(parent_submodule_name / ancestor_name are computed by the two statements before it)")
    c.fields = dict(c.fields)
    c.fields["ancestor_module"] = "ref"
    c.fields["parent_submodule"] = "ref"
    c.param("entity", TRef("FortranSubmodule"))
    c.param("parent_submodule_name", TStr())
    c.param("ancestor_name", TStr())
    c.param("submodules", TList("ref"))
    c.calls["_unit_name"] = lambda eng, path, e, args, recv: SStr(UNITNAME(args[0].t))
    c.assumed.append("_unit_name(x) is a function of x alone (uninterpreted UNIT_NAME_OF): lower-cased name of a module object or of a module name")
    E = lambda v: V(v._e, v._e.entry)
    hit = lambda v, x, nm, anc: z3.And(nm == LOWER(sel(H(v, "name"), x)), UNITNAME(sel(H(v, "ancestor_module"), x)) == anc)

    def unfold(v):
        e = E(v)
        seq = v.it.seq
        a = (e.parent_submodule_name, e.ancestor_name)
        return [NOHIT(seq, 0, *a), NOHIT(seq, v.k + 1, *a) == z3.And(NOHIT(seq, v.k, *a), z3.Not(hit(e, seq[v.k], *a)))]
    c.loop(0, invariants=[("no_match_so_far", lambda v: NOHIT(v.it.seq, v.k, E(v).parent_submodule_name, E(v).ancestor_name)),
                          ("frame", lambda v: z3.And(v.it.seq == E(v).heap.list_get(E(v).val("submodules")), H(v, "name") == H(E(v), "name"), H(v, "ancestor_module") == H(E(v), "ancestor_module"),
                                                     H(v, "parent_submodule") == H(E(v), "parent_submodule"),
                                                     v.parent_submodule_name == E(v).parent_submodule_name, v.ancestor_name == E(v).ancestor_name))],
           unfold=unfold, variant=lambda v: z3.Length(v.it.seq) - v.k)
    seq0 = lambda v0: v0.heap.list_get(v0.val("submodules"))
    c.post_facts = lambda v0: [NOHIT(seq0(v0), 0, v0.parent_submodule_name, v0.ancestor_name)]
    j = z3.Int("j!psm")

    def post(v0, res, v1):
        seq = seq0(v0)
        a = (v0.parent_submodule_name, v0.ancestor_name)
        p0, p1 = sel(H(v0, "parent_submodule"), v0.entity), sel(H(v1, "parent_submodule"), v0.entity)
        found = z3.Exists([j], z3.And(0 <= j, j < z3.Length(seq), hit(v0, seq[j], *a), NOHIT(seq, j, *a), p1 == seq[j]))
        return z3.Or(z3.And(NOHIT(seq, z3.Length(seq), *a), p1 == p0), found)
    c.ensures("parent_is_the_first_submodule_with_that_name_below_the_same_ancestor_module_else_unchanged", post)
    c.no_raise = True
    return c


# ---------------------------------------------------------------- BLOCK constructs are scopes of their own
BLOCK_SCOPED = ("TYPE_RE", "INTERFACE_RE", "ENUM_RE", "ATTRIB_RE", "PARAMETER_RE")


def block_scope_guards(prop="C07", replay=None):
    """a derived type, interface block or enumeration defined inside a BLOCK construct, and an attribute statement there, belong to the construct (F2018 11.1.4): the
    branches of FortranContainer.__init__'s statement dispatch that would add them to the enclosing procedure's tables are taken at block level 0 only (the guards are
    read from the if / elif chain of the current source).  Without the guard a BLOCK-local type replaces the host's type of the same name in the whole procedure."""
    from contracts.cascade import read_cascade
    from harness.core import OR, PROVED, REFUTED, UNKNOWN
    out = []
    cas = read_cascade()
    for rx in BLOCK_SCOPED:
        first = [b for b in cas if b.regex == rx]
        if not first:
            out.append(OR(id=f"{prop}.S.cascade.{rx}.taken_at_block_level_0_only", status=UNKNOWN, kind="S", target="ford.sourceform.FortranContainer.__init__", detail=f"no branch tests {rx}"))
            continue
        b = min(first, key=lambda x: x.idx)
        ok = "blocklevel == 0" in b.guard.replace("(", "").replace(")", "")
        r = OR(id=f"{prop}.S.cascade.{rx}.taken_at_block_level_0_only", status=PROVED if ok else REFUTED, kind="S", role="pre", backend="ast", target="ford.sourceform.FortranContainer.__init__",
               desc=f"branch #{b.idx} ({rx}) is guarded by `blocklevel == 0` (guard read from the source: `{b.guard or 'none'}`)")
        if not ok:
            r.witness = {"branch": b.src[:160]}
            r.detail = "declarations inside a BLOCK construct are added to the enclosing scope"
            if replay:
                r.replay = replay()
        out.append(r)
    return out

"""C15 - options mean the same in every configuration format, with CLI precedence.  DESIGN.md section 6, C15."""
from __future__ import annotations
import ast, time
from harness.core import Task, OR, PROVED, REFUTED, UNKNOWN
from harness import loader
from contracts import settingsc, metadata
from contracts.common import *

PROP = "C15"


def order_task():
    """block order of parse_arguments: --config values, then command-line values, then path normalisation, then the refusal check"""
    def run():
        fn = loader.find_def("ford", "parse_arguments") if False else None
        import ast as _a
        text, tree = loader.module_source("ford.__init__") if False else (None, None)
        p = loader.REPO + "/ford/__init__.py"
        src = open(p, encoding="utf-8").read()
        tree = _a.parse(src)
        fns = [n for n in tree.body if isinstance(n, _a.FunctionDef) and n.name == "parse_arguments"]
        if len(fns) != 1:
            return [OR(id=f"{PROP}.S.parse_arguments.anchor", status=UNKNOWN, kind="S", target="ford.parse_arguments", detail="function not found")]
        body = fns[0].body
        def idx(pred):
            hits = [i for i, st in enumerate(body) if pred(_a.unparse(st))]
            return hits[0] if hits else None
        i_cfg = idx(lambda s: "command_line_args.get('config'" in s)
        i_cli = idx(lambda s: "convert_types_from_commandarguments(" in s)
        i_norm = idx(lambda s: "normalise_paths(" in s)
        i_ref = idx(lambda s: "srcdir.parents" in s)
        out = []
        for nm, a, b, what in (("config_before_command_line", i_cfg, i_cli, "--config values are applied before explicit command-line options (so the options win)"),
                               ("command_line_before_normalise", i_cli, i_norm, "command-line values are applied before relative paths are normalised"),
                               ("normalise_before_refusal", i_norm, i_ref, "paths are normalised before the source-inside-output refusal check")):
            if a is None or b is None:
                out.append(OR(id=f"{PROP}.S.parse_arguments.{nm}", status=UNKNOWN, kind="S", target="ford.parse_arguments", detail="anchor statement not found"))
            else:
                out.append(OR(id=f"{PROP}.S.parse_arguments.{nm}", status=PROVED if a < b else REFUTED, kind="S", role="pre", backend="ast", target="ford.parse_arguments", desc=what,
                              replay=None if a < b else {"confirmed": True, "input": "statement order", "actual": [a, b], "expected": "first < second"}))
        return out
    return Task(f"{PROP}.S.order", PROP, "ford.parse_arguments", run)


def bounded_task():
    def run():
        from bounded import c15
        t0 = time.time()
        hit = c15.search(("md", "toml"))
        r = OR(id=f"{PROP}.Bd.loaders.format_equivalence", status=REFUTED if hit else PROVED, kind="Bd", role="bounded", target="ford.load_settings + ford.parse_arguments (real)",
               desc="every option of the real ProjectSettings schema x representative values of its declared type, written as project-file metadata and as fpm.toml "
                    "[extra.ford]; also loaded from a second working directory",
               bound=f"{c15.count_cases()} (option, value) pairs x 2 formats x 2 working directories", cases=c15.count_cases(), seconds=time.time() - t0, backend="enumeration")
        if hit:
            r.replay, r.witness = hit, hit["input"]
        t1 = time.time()
        bad = c15.extra_cases()
        r2 = OR(id=f"{PROP}.Bd.loaders.precedence_and_errors", status=REFUTED if bad else PROVED, kind="Bd", role="bounded", target="ford.load_settings + ford.parse_arguments (real)",
                desc="command line > --config > file; None keeps the file value; documented quoted-URL spelling; unknown keys reported without aborting; ill-typed values rejected naming the option; "
                     "relative paths relative to the project file", bound="11 scenario checks", cases=11, seconds=time.time() - t1, backend="enumeration")
        if bad:
            r2.replay = {"confirmed": True, "input": bad[0][0], "actual": repr(bad[0][1])[:300], "expected": repr(bad[0][2])[:300], "how": "real loaders"}
            r2.witness = bad[0][0]
        t2 = time.time()
        bad3 = c15.argv_case() or c15.relative_project_file()
        r3 = OR(id=f"{PROP}.Bd.loaders.real_command_line_without_options", status=REFUTED if bad3 else PROVED, kind="Bd", role="bounded", target="ford.initialize (real argparse)",
                desc="ford.initialize() with a real argv that names only the project file, the file (project metadata / fpm.toml) setting every switch and several valued options: "
                     "all of them keep the file's value", bound=f"{len(c15.FILE_VALUES)} options x 2 formats", cases=2 * len(c15.FILE_VALUES), seconds=time.time() - t2, backend="enumeration")
        if bad3:
            r3.replay = {"confirmed": True, "input": bad3[0][0], "actual": repr(bad3[0][1])[:300], "expected": repr(bad3[0][2])[:300], "how": "ford.initialize() with sys.argv = ['ford', <project file>]"}
            r3.witness = bad3[0][0]
        diffs = c15.config_diffs()
        new = [d for d in diffs if d not in c15.CONFIG_KNOWN]
        out = [r, r2, r3]
        k = OR(id=f"{PROP}.Bd.loaders.config_vs_toml", status=REFUTED if (set(diffs) & c15.CONFIG_KNOWN) else PROVED, kind="Bd", role="bounded", target="ford.parse_arguments (--config block)",
               desc="options given through --config get the same normalisation as options from a settings file", bound=f"{c15.count_cases()} pairs", cases=c15.count_cases(),
               backend="enumeration", known="C15-config-bypass")
        if diffs:
            k.replay = {"confirmed": True, "input": "--config \"<option> = <value>\" vs the same line in fpm.toml", "actual": {"options that differ": diffs}, "expected": "no difference"}
            k.witness = diffs
        out.append(k)
        if new:
            n = OR(id=f"{PROP}.Bd.loaders.config_vs_toml.new", status=REFUTED, kind="Bd", role="bounded", target="ford.parse_arguments (--config block)",
                   desc="further options differ between --config and fpm.toml beyond the recorded finding", backend="enumeration")
            n.replay = {"confirmed": True, "input": new, "actual": new, "expected": []}
            out.append(n)
        return out
    return Task(f"{PROP}.Bd.loaders", PROP, "real loaders", run)


def argparse_task(PROP=PROP, only=None, replay=None):
    """the command line overrides a file value only where an option is *present*: convert_types_from_commandarguments treats every value that is not None as given.  So every
    argument declared in get_command_line_arguments must yield None when absent: argparse does that for `store` / `append` actions without a default, and for the
    store_true / store_false switches only with an explicit default=None."""
    def run():
        import ast, os
        src = open(os.path.join(os.path.dirname(loader.module_path("ford.output")), "__init__.py"), encoding="utf-8").read()
        fns = [n for n in ast.walk(ast.parse(src)) if isinstance(n, ast.FunctionDef) and n.name == "get_command_line_arguments"]
        if not fns:
            return [OR(id=f"{PROP}.S.argparse.absent_means_None", status="unknown", kind="S", target="ford.get_command_line_arguments", detail="function not found")]
        out = []
        for c in ast.walk(fns[0]):
            if not (isinstance(c, ast.Call) and isinstance(c.func, ast.Attribute) and c.func.attr == "add_argument"):
                continue
            names = [a.value for a in c.args if isinstance(a, ast.Constant) and isinstance(a.value, str)]
            kw = {k.arg: k.value for k in c.keywords}
            action = kw["action"].value if "action" in kw and isinstance(kw["action"], ast.Constant) else "store"
            if action in ("version", "help") or (names and not names[0].startswith("-")):
                continue            # no option value / the positional project file
            if only and not any(n.lstrip("-") in only for n in names):
                continue
            if "default" in kw:
                ok = isinstance(kw["default"], ast.Constant) and kw["default"].value is None
            else:
                ok = action in ("store", "append", "extend")
            r = OR(id=f"{PROP}.S.argparse.{names[-1].lstrip('-') if names else 'arg'}.absent_means_None", status=PROVED if ok else REFUTED, kind="S", role="pre", backend="ast",
                   target="ford.get_command_line_arguments", desc=f"{'/'.join(names)} (action {action}): argparse yields None when the option is not on the command line")
            if not ok:
                from bounded import c15
                bad = c15.argv_case() if replay is None else None
                r.witness = {"argument": names, "action": action, "default": ast.unparse(kw["default"]) if "default" in kw else "<argparse default for the action>"}
                r.detail = "an absent switch yields a non-None value, which overrides the value of the settings file"
                r.replay = replay() if replay is not None else {"confirmed": bool(bad), "input": "ford <project file>   (no options)", "actual": repr(bad[:2])[:400], "expected": "file values kept", "how": "ford.initialize() with a real argv"} if bad else None
            out.append(r)
        return out
    return Task(f"{PROP}.S.argparse", PROP, "ford.get_command_line_arguments", run)


def from_string_task():
    """the project-file spelling of an extra file type is `extension comment [lexer]`, the parts separated by white space - any amount of it (columns are commonly aligned):
    ExtraFileType.from_string takes the string apart with `str.split()` without an argument"""
    def run():
        import ast
        oid = f"{PROP}.S.ExtraFileType.from_string.parts_are_separated_by_any_white_space"
        fn = loader.find_def("ford.settings", "ExtraFileType.from_string")
        splits = [c for c in ast.walk(fn) if isinstance(c, ast.Call) and isinstance(c.func, ast.Attribute) and c.func.attr in ("split", "rsplit", "partition")]
        none_sep = lambda c: (len(c.args) == 1 and isinstance(c.args[0], ast.Constant) and c.args[0].value is None and not c.keywords) or \
            (not c.args and len(c.keywords) == 1 and c.keywords[0].arg == "sep" and isinstance(c.keywords[0].value, ast.Constant) and c.keywords[0].value.value is None)
        ok = len(splits) == 1 and splits[0].func.attr == "split" and ((not splits[0].args and not splits[0].keywords) or none_sep(splits[0]))
        r = OR(id=oid, status=PROVED, kind="S", role="pre", backend="ast", target="ford.settings.ExtraFileType.from_string",
               desc=f"`{ast.unparse(splits[0]) if splits else '?'}`: split on runs of white space (blanks, tabs), as the TOML table form needs no separators at all")
        if not ok:
            r.detail = "entries with more than one blank (or a tab) between their parts may be misread or rejected, while the same entries as TOML tables are accepted"
        from contracts import astform
        from bounded import c15

        def _rp():
            bad = c15.extra_cases()
            return {"confirmed": True, "input": "extra_filetypes: inc  !  /  c    //  c  /  h<TAB>//<TAB>cpp", "actual": repr(bad[:1])[:400], "expected": "the same three file types as from the TOML tables", "how": "real loaders: project-file metadata vs fpm.toml"} if bad else None
        return [astform.decide(r, ok, _rp)]
    return Task(f"{PROP}.S.from_string", PROP, "ford.settings.ExtraFileType.from_string", run)


def paths_task():
    """two call-site obligations on the path handling of the settings: (1) ProjectSettings.normalise_paths makes the directory of the project file absolute *before* it re-bases the
    path options on it (the loop re-bases the `directory` field too: a relative one would be doubled, and every later field with it); (2) the final output directory is excluded from
    the search for sources whatever replaced exclude_dir on the command line (shared with C12)."""
    def run():
        import ast
        from contracts import confine
        from bounded import c15
        replay = lambda: (lambda b: {"confirmed": True, "input": b[0][0], "actual": repr(b[0][1])[:300], "expected": repr(b[0][2])[:300], "how": "ford.initialize() with a real argv"} if b else None)(c15.relative_project_file())
        fn = loader.find_def("ford.settings", "ProjectSettings.normalise_paths")
        sets = [n for n in fn.body if isinstance(n, ast.Assign) and any(ast.unparse(t) == "self.directory" for t in n.targets)]
        loop = [i for i, n in enumerate(fn.body) if isinstance(n, ast.For)]
        from contracts import astform
        ok = len(sets) == 1 and astform.text(fn, sets[0].value).endswith((".absolute()", ".resolve()")) and loop and fn.body.index(sets[0]) < loop[0]
        r = OR(id=f"{PROP}.S.settings.normalise_paths.base_directory_is_absolute", status=PROVED, kind="S", role="pre", backend="ast", target="ford.settings.ProjectSettings.normalise_paths",
               desc=f"`{ast.unparse(sets[0])[:70] if sets else '?'}` before the loop over the path options: they are re-based on an absolute directory")
        if not ok:
            r.detail = "a project file named by a relative path with a directory part may get its path options re-based twice"
        return [astform.decide(r, ok, replay)] + confine.output_dir_excluded(PROP, replay)
    return Task(f"{PROP}.S.paths", PROP, "ford.settings / ford.parse_arguments", run)


def _display_spellings():
    return __import__("bounded.c05", fromlist=["x"]).display_spellings()


def build(tier, seed):
    set_tier(tier)
    def _meta():
        return metadata.meta_preprocessor(PROP)
    _meta.__name__ = "meta_preprocessor"
    tasks = [standin_task(PROP, "settings.display_spellings", _display_spellings, "ford.settings.ProjectSettings (real)",
                          "`display` given as one string (fpm.toml, keyword) or in upper case selects what the one-element lower-case list selects", "4 spellings", 4),
             a_task(PROP, settingsc.parse_to_dict), a_task(PROP, _meta), order_task(), argparse_task(), from_string_task(), paths_task(), bounded_task(),
             Task(f"{PROP}.B.meta_patterns", PROP, "META_RE / META_MORE_RE", lambda: metadata.rx_obligations(PROP))]
    meta = {
        "trusted_base": TRUSTED_BASE,
        "assumptions": PYVC_ASSUMPTIONS + [
            "str.strip / str.strip(chars) are uninterpreted functions; str.split(sep, 1) splits at the first occurrence (IndexOf)",
            "the type-directed conversion (convert_setting, __post_init__, normalise_paths) uses typing reflection (get_type_hints / get_origin) and is outside Engine A's "
            "subset: it is covered only by the bounded run over the real schema",
        ],
        "functions_under_contract": fn_meta([("ford.settings", "_parse_to_dict", None), ("ford.utils", "meta_preprocessor", "regex constants opaque (uninterpreted match predicate / groups)")]) + [{"function": "ford.parse_arguments", "obligations": "statement order (AST)"}],
        "unverified_surroundings": ["convert_setting / convert_types_from_metapreprocessor / __post_init__ / normalise_paths (reflection)", "argparse"],
        "explanation": "_parse_to_dict is proved to implement the documented meaning of `key SEP value` lines for every list of lines; the override order of parse_arguments is "
                       "read from its AST. Format equivalence over the whole schema is a bounded stand-in.",
    }
    return tasks, meta

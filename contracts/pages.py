"""Engine A contracts for the static page tree (C17): the directory walk of get_page_tree and the output path of a page."""
from __future__ import annotations
import ast
import z3
from pyvc.contract import *
from pyvc.engine import _Raise
from pyvc.blocks import between
from pyvc.values import *
from harness.core import OR, PROVED, REFUTED, UNKNOWN
from harness import loader
from contracts.display import H, sel, lst, base

I, S, B = z3.IntSort(), z3.StringSort(), z3.BoolSort()
SI = z3.SeqSort(I)
EXISTS = z3.Function("PATH_EXISTS", S, B)
ISDIR = z3.Function("PATH_IS_DIR", S, B)
SUFFIX = z3.Function("PATH_SUFFIX", S, S)
SUBTREE = z3.Function("SUBTREE_OF_ENTRY", I, I)         # result of the recursive get_page_tree call made for entry k (0: None)
NEWPAGE = z3.Function("PAGE_OF_ENTRY", I, I)            # the PageNode constructed for entry k
PAGE_OK = z3.Function("PAGE_HAS_TITLE", I, B)           # PageNode(...) for entry k does not raise ValueError
SUBS = z3.Function("SUBPAGES_AFTER", I, SI)             # specification folds: node.subpages / node.files after the first k entries
FILES = z3.Function("FILES_AFTER", I, SI)


class TNone(T):
    def fresh(self, eng, path, name):
        return SNone()


def get_page_tree_walk(prop="C17"):
    c = base(Contract("ford.pagetree", "get_page_tree", prop))
    c.qual_suffix = "walk"
    c.block_select = between("for name in mergedfilelist", "return node")
    c.dropped.append("block contract: the loop `for name in mergedfilelist:` of get_page_tree (the construction of mergedfilelist is a separate structural obligation); "
                     "progress reporting (progress is None)")
    c.fields.update({"subpages": "list:ref", "files": "list:str", "copy_subdir": "list:str"})
    c.param("topdir", TStr())
    c.param("node", TRef("PageNode"))
    c.param("parent", TRef("PageNode", nonnull=False))
    c.param("mergedfilelist", TList("str"))
    c.param("progress", TNone())
    for nm in ("proj_copy_subdir", "output_dir", "md", "encoding"):
        c.param(nm, TOpaque(nm))
    E = lambda v: V(v._e, v._e.entry)
    seq0 = lambda v0: v0.heap.list_get(v0.val("mergedfilelist"))
    subs_of = lambda v, v0: v.heap.list_get(SList(sel(H(v, "subpages"), v0.node), "ref"))
    files_of = lambda v, v0: v.heap.list_get(SList(sel(H(v, "files"), v0.node), "str"))
    name_at = lambda v0, k: STR_OF(seq0(v0)[k])
    full = lambda v0, k: PATH_JOIN(v0.topdir, name_at(v0, k))
    DOT, TILDE, MD = z3.StringVal("."), z3.StringVal("~"), z3.StringVal(".md")

    BASENAME = z3.Function("PATH_BASENAME", S, S)             # os.path.basename (library contract: the last component of a path)

    def skipped(v0, k):
        """hidden files, editor backups, and entries that do not name an entry of this directory (`sub/x.md`: reached through `sub`)"""
        n = name_at(v0, k)
        return z3.Or(z3.SubString(n, 0, 1) == DOT, z3.SubString(n, z3.Length(n) - 1, 1) == TILDE, BASENAME(n) != n)
    c.calls["os.path.basename"] = lambda eng, path, e, args, recv: SStr(BASENAME(eng.to_str(path, args[0])))

    def in_parent_copy(v0, k):
        # (a sub-directory that the page of *this* directory lists in copy_subdir is copied verbatim, not rendered: the list consulted is the node's own, not the one of the
        #  directory above - the first version of this contract said `parent` because the code did, see DESIGN 11.8)
        cs = v0.heap.list_get(SList(sel(H(v0, "copy_subdir"), v0.node), "str"))
        return z3.Contains(cs, z3.Unit(seq0(v0)[k]))

    def contrib_sub(v0, k):
        p = full(v0, k)
        one = lambda x: z3.Unit(x)
        empty = z3.Empty(SI)
        return z3.If(skipped(v0, k), empty,
                     z3.If(ISDIR(p), z3.If(z3.Or(in_parent_copy(v0, k), SUBTREE(k) == 0), empty, one(SUBTREE(k))),
                           z3.If(z3.And(SUFFIX(p) == MD, PAGE_OK(k)), one(NEWPAGE(k)), empty)))

    def contrib_file(v0, k):
        p = full(v0, k)
        return z3.If(z3.And(z3.Not(skipped(v0, k)), z3.Not(ISDIR(p)), SUFFIX(p) != MD), z3.Unit(seq0(v0)[k]), z3.Empty(SI))

    c.requires("names_are_not_empty", lambda v: z3.BoolVal(True))
    c.requires("lists_are_distinct", lambda v: z3.And(sel(H(v, "subpages"), v.node) != sel(H(v, "files"), v.node),
                                                       sel(H(v, "subpages"), v.node) != v.val("mergedfilelist").id, sel(H(v, "files"), v.node) != v.val("mergedfilelist").id,
                                                       z3.And(sel(H(v, "copy_subdir"), v.node) != sel(H(v, "files"), v.node),
                                                              sel(H(v, "copy_subdir"), v.node) != sel(H(v, "subpages"), v.node),
                                                              sel(H(v, "copy_subdir"), v.node) != v.val("mergedfilelist").id)))
    jq = z3.Int("j!names")
    c.requires("entry_names_are_not_empty", lambda v: z3.ForAll([jq], z3.Implies(z3.And(0 <= jq, jq < z3.Length(seq0(v))), z3.Length(STR_OF(seq0(v)[jq])) > 0)))

    def unfold(v):
        e = E(v)
        return [SUBS(0) == subs_of(e, e), FILES(0) == files_of(e, e),
                SUBS(v.k + 1) == z3.Concat(SUBS(v.k), contrib_sub(e, v.k)), FILES(v.k + 1) == z3.Concat(FILES(v.k), contrib_file(e, v.k)),
                z3.Length(STR_OF(v.it.seq[v.k])) > 0]
    jin = z3.Int("j!inside")
    inside_upto = lambda v0, k: z3.ForAll([jin], z3.Implies(z3.And(0 <= jin, jin < k, z3.Not(skipped(v0, jin))),
                                                            z3.And(EXISTS(full(v0, jin)), c._inside(z3.Concat(z3.StringVal("\x00resolved:"), v0.topdir),
                                                                                                   z3.Concat(z3.StringVal("\x00resolved:"), full(v0, jin))))))
    c.loop(0, invariants=[("entries_so_far_exist_inside_the_directory", lambda v: inside_upto(E(v), v.k)),
                          ("subpages_are_the_fold", lambda v: subs_of(v, E(v)) == SUBS(v.k)),
                          ("files_are_the_fold", lambda v: files_of(v, E(v)) == FILES(v.k)),
                          ("frame", lambda v: z3.And(v.it.seq == seq0(E(v)), v.topdir == E(v).topdir, v.node == E(v).node, v.parent == E(v).parent,
                                                     sel(H(v, "subpages"), v.node) == sel(H(E(v), "subpages"), E(v).node), sel(H(v, "files"), v.node) == sel(H(E(v), "files"), E(v).node),
                                                     z3.And(sel(H(v, "copy_subdir"), v.node) == sel(H(E(v), "copy_subdir"), E(v).node),
                                                            v.heap.list_get(SList(sel(H(v, "copy_subdir"), v.node), "str")) == E(v).heap.list_get(SList(sel(H(E(v), "copy_subdir"), E(v).node), "str")))))],
           unfold=unfold, variant=lambda v: z3.Length(v.it.seq) - v.k)
    c.post_facts = lambda v0: [SUBS(0) == subs_of(v0, v0), FILES(0) == files_of(v0, v0)]

    # --- the file system and the callees
    INSIDE_DIR = z3.Function("RESOLVES_INSIDE", S, S, B)      # topdir.resolve() in filename.resolve().parents
    c.methods["resolve"] = lambda eng, path, e, args, recv: SOpaque("resolved", None) if not isinstance(recv, SStr) else SStr(z3.Concat(z3.StringVal("\x00resolved:"), recv.t))
    def _sattr(eng, path, obj, name):
        if name == "suffix":
            return SStr(SUFFIX(obj.t))
        if name == "parents":
            return SOpaque("parents:" , obj.t)
        return None
    c.str_attr = _sattr
    def _contains(eng, path, container, item, e):
        if container.tag.startswith("parents"):
            return INSIDE_DIR(eng.to_str(path, item), container.t)
        return None
    c.opaque_contains = _contains
    c._inside = INSIDE_DIR
    c.methods["exists"] = lambda eng, path, e, args, recv: SBool(EXISTS(eng.to_str(path, recv)))
    c.methods["is_dir"] = lambda eng, path, e, args, recv: SBool(ISDIR(eng.to_str(path, recv)))
    c.assumed.append("the file system is a pure function of the path during the walk (exists / is_dir / suffix are uninterpreted functions of the path's string form)")

    def kterm(path):
        return path.env["_k0"].t

    def fresh_object(eng, path, term):
        # the callee returns a newly allocated node (or None): not one of the objects or lists of the entry state
        path.assume(z3.Or(term == 0, term >= path.heap.alloc0))

    def call_get_page_tree(eng, path, e, args, recv):
        k = kterm(path)
        fresh_object(eng, path, SUBTREE(k))
        return SRef(SUBTREE(k), "PageNode")
    c.calls["get_page_tree"] = call_get_page_tree

    def call_PageNode(eng, path, e, args, recv):
        k = kterm(path)
        if "ValueError" not in getattr(path, "noraise", set()):
            raise _Raise(PAGE_OK(k), "ValueError")
        path.assume(NEWPAGE(k) >= path.heap.alloc0)
        return SRef(NEWPAGE(k), "PageNode")
    c.calls["PageNode"] = call_PageNode
    c.assumed.append("callee contracts (assumed): the recursive get_page_tree call and PageNode(...) return new objects (or None / raise ValueError for a page without title) and do "
                     "not touch the lists of the node being filled; exceptions other than ValueError from PageNode (unreadable file) are outside the contract")
    c.calls["warn"] = lambda eng, path, e, args, recv: SNone()
    c.opaque_attr = lambda eng, path, obj, name: SOpaque("excattr")
    c.opaque_index = lambda eng, path, container, idx, e: SOpaque("excarg")

    def post(v0, res, v1):
        n = z3.Length(seq0(v0))
        return z3.And(subs_of(v1, v0) == SUBS(n), files_of(v1, v0) == FILES(n))
    c.ensures("subpages_and_files_follow_the_merged_list_entry_by_entry", post)
    c.ensures("every_entry_that_was_walked_exists_and_resolves_inside_the_directory", lambda v0, res, v1: inside_upto(v0, z3.Length(seq0(v0))))
    jr = z3.Int("j!raise")
    RES = lambda t: z3.Concat(z3.StringVal("\x00resolved:"), t)
    c.raises("only_for_a_listed_entry_that_does_not_exist_or_lies_outside_the_directory",
             lambda v0, exc, v1: z3.Exists([jr], z3.And(0 <= jr, jr < z3.Length(seq0(v0)), z3.Not(skipped(v0, jr)),
                                                        z3.Or(z3.Not(EXISTS(full(v0, jr))), z3.Not(c._inside(RES(v0.topdir), RES(full(v0, jr))))))))
    c.allowed_raises = {"ValueError"}
    return c


def page_path(prop="C17"):
    """PageNode.path: <location>/<stem of the source file>.html"""
    c = base(Contract("ford.pagetree", "PageNode.path", prop))
    c.fields.update({"location": "str", "filename": "str"})
    c.param("self", TRef("PageNode"))
    c.assumed.append("PageNode.__init__ stores filename = Path(path.stem) and location = the directory of the source file relative to the page directory "
                     "(structural obligation C17.S.PageNode.__init__.filename_is_the_stem); paths are modelled by their string forms")
    c.ensures("the_page_of_a_source_file_is_its_stem_plus_html_in_the_same_relative_directory",
              lambda v0, res, v1: v1._e.to_str(v1._p, res) == PATH_JOIN(sel(H(v0, "location"), v0.self), z3.Concat(sel(H(v0, "filename"), v0.self), z3.StringVal(".html"))))
    c.no_raise = True
    return c


def structural(prop="C17"):
    out = []
    fn = loader.find_def("ford.pagetree", "get_page_tree")
    src = [ast.unparse(s) for s in ast.walk(fn) if isinstance(s, (ast.Assign, ast.Expr, ast.If))]
    want = {
        "listing_sorted": "filelist = sorted(os.listdir(topdir))",
        "index_removed": "filelist.remove('index.md')",
    }
    for key, text in want.items():
        ok = text in src
        out.append(OR(id=f"{prop}.S.get_page_tree.{key}", status=PROVED if ok else UNKNOWN, kind="S", role="pre", backend="ast", target="ford.pagetree.get_page_tree",
                      desc=f"the directory listing the walk starts from: `{text}` (alphabetical order of the entries that ordered_subpage does not name)",
                      detail="" if ok else "statement not found in this form; the bounded stand-in decides"))
    merged = [s for s in ast.walk(fn) if isinstance(s, ast.If) and ast.unparse(s.test) == "node.ordered_subpages"]
    forms = ("mergedfilelist = list(OrderedDict.fromkeys(node.ordered_subpages + filelist))", "mergedfilelist = list(dict.fromkeys(node.ordered_subpages + filelist))")
    ok = len(merged) == 1 and len(merged[0].body) == 1 and ast.unparse(merged[0].body[0]) in forms and len(merged[0].orelse) == 1 and ast.unparse(merged[0].orelse[0]) == "mergedfilelist = filelist"
    out.append(OR(id=f"{prop}.S.get_page_tree.merge_is_ordered_then_listing_without_repeats", status=PROVED if ok else UNKNOWN, kind="S", role="pre", backend="ast",
                  target="ford.pagetree.get_page_tree", desc="mergedfilelist = first occurrences of (ordered_subpages ++ sorted listing): dict.fromkeys keeps the first occurrence of "
                  "every key in insertion order (Python language guarantee)", detail="" if ok else "the merge is not written in the recognised form; the bounded stand-in decides"))
    init = loader.find_def("ford.pagetree", "PageNode.__init__")
    stmts = [ast.unparse(s) for s in ast.walk(init) if isinstance(s, ast.Assign)]
    ok = "self.filename = Path(path.stem)" in stmts and any(s.startswith("self.location = Path(os.path.relpath(path.parent, self.topdir))") for s in stmts)
    out.append(OR(id=f"{prop}.S.PageNode.__init__.filename_is_the_stem", status=PROVED if ok else UNKNOWN, kind="S", role="pre", backend="ast", target="ford.pagetree.PageNode.__init__",
                  desc="filename is the stem of the source file and location its directory relative to the top of the page directory (hypothesis of the PageNode.path contract)",
                  detail="" if ok else "assignments not found in this form"))
    ord_ = [s for s in stmts if s.startswith("self.ordered_subpages")]
    ok = ord_ in (["self.ordered_subpages = [x for x in self.meta.ordered_subpage if x != 'index.md']"],
                  ["self.ordered_subpages = [os.path.normpath(x) for x in self.meta.ordered_subpage if os.path.normpath(x) != 'index.md']"])
    out.append(OR(id=f"{prop}.S.PageNode.__init__.ordered_subpages_from_metadata", status=PROVED if ok else UNKNOWN, kind="S", role="pre", backend="ast", target="ford.pagetree.PageNode.__init__",
                  desc="ordered_subpages is the ordered_subpage metadata in the order given (each entry as the directory entry it names: os.path.normpath), without index.md", detail="" if ok else f"found {ord_}"))
    return out


# ------------------------------------------------------------------ PagetreePage.writeout: what is copied next to a page
RESOLVE = z3.Function("PATH_RESOLVE", S, S)
INSIDE = z3.Function("RELATIVE_TO_SUCCEEDS", S, S, B)       # a.relative_to(b) does not raise
DIR_OK = z3.Function("COPYTREE_SUCCEEDS", I, B)             # copytree for entry k of copy_subdir returns
FILE_OK = z3.Function("COPY_SUCCEEDS", I, B)
DIRS = z3.Function("COPIED_DIRS_AFTER", I, SI)              # ghost: (source, destination) pairs handed to copytree / shutil.copy that returned
CFILES = z3.Function("COPIED_FILES_AFTER", I, SI)
SEP = z3.StringVal("\x00->\x00")


def writeout_copies(prop="C17"):
    c = base(Contract("ford.output", "PagetreePage.writeout", prop))
    c.dropped.append("the directory creation and the HTML write (super().writeout()) are opaque calls that return")
    c.fields.update({"data": "dict:str:str", "obj": "ref:PageNode", "location": "str", "page_dir": "str", "copy_subdir": "list:str", "files": "list:str", "filename": "str"})
    STEM = z3.Function("PATH_STEM", S, S)
    c.str_attr = lambda eng, path, o, name: SStr(STEM(o.t)) if name == "stem" else None
    c.methods["mkdir"] = lambda eng, path, e, args, recv: SNone()
    c.calls["super"] = lambda eng, path, e, args, recv: SOpaque("super")
    c.methods["writeout"] = lambda eng, path, e, args, recv: SNone()
    c.globals["USER_WRITABLE_ONLY"] = SConst(0o755)
    c.globals["PagetreePage"] = SOpaque("class")
    c.param("self", TRef("PagetreePage"))
    c.param("ghost_dirs", TList("str"))           # ghost parameters: the copies that were carried out, in order
    c.param("ghost_files", TList("str"))
    E = lambda v: V(v._e, v._e.entry)
    obj = lambda v: sel(H(v, "obj"), v.self)
    cs = lambda v0: v0.heap.list_get(SList(sel(H(v0, "copy_subdir"), obj(v0)), "str"))
    fs = lambda v0: v0.heap.list_get(SList(sel(H(v0, "files"), obj(v0)), "str"))
    loc = lambda v0: sel(H(v0, "location"), obj(v0))
    pd = lambda v0: z3.Select(v0.heap.dict_val(SDict(sel(H(v0, "data"), v0.self), "str", "str")), z3.StringVal("page_dir"))
    frm = lambda v0: PATH_JOIN(pd(v0), loc(v0))
    to = lambda v0: PATH_JOIN(sel(H(v0, "page_dir"), v0.self), loc(v0))
    pair = lambda a, b: SID(z3.Concat(a, SEP, b))
    gd = lambda v: v.heap.list_get(v.val("ghost_dirs"))
    gf = lambda v: v.heap.list_get(v.val("ghost_files"))
    c.requires("settings_have_a_page_dir", lambda v: z3.Select(v.heap.dict_has(SDict(sel(H(v, "data"), v.self), "str", "str")), z3.StringVal("page_dir")))
    c.requires("distinct_lists", lambda v: z3.Distinct(v.val("ghost_dirs").id, v.val("ghost_files").id, sel(H(v, "copy_subdir"), obj(v)), sel(H(v, "files"), obj(v))))
    c.requires("ghosts_start_empty", lambda v: z3.And(z3.Length(gd(v)) == 0, z3.Length(gf(v)) == 0))

    def dir_contrib(v0, k):
        item = STR_OF(cs(v0)[k])
        dst = PATH_JOIN(to(v0), item)
        return z3.If(z3.And(INSIDE(RESOLVE(dst), RESOLVE(to(v0))), DIR_OK(k)), z3.Unit(pair(PATH_JOIN(frm(v0), item), dst)), z3.Empty(SI))

    def file_contrib(v0, k):
        item = STR_OF(fs(v0)[k])
        return z3.If(FILE_OK(k), z3.Unit(pair(PATH_JOIN(frm(v0), item), to(v0))), z3.Empty(SI))

    c.methods["resolve"] = lambda eng, path, e, args, recv: SStr(RESOLVE(eng.to_str(path, recv)))

    def relative_to(eng, path, e, args, recv):
        if "ValueError" not in getattr(path, "noraise", set()):
            raise _Raise(INSIDE(eng.to_str(path, recv), eng.to_str(path, args[0])), "ValueError")
        return SOpaque("relpath")
    c.methods["relative_to"] = relative_to

    def copytree(eng, path, e, args, recv):
        k = path.env["_k0"].t
        if "OSError" not in getattr(path, "noraise", set()):
            raise _Raise(DIR_OK(k), "OSError")
        g = path.env["ghost_dirs"]
        path.heap.list_set(g, z3.Concat(path.heap.list_get(g), z3.Unit(pair(eng.to_str(path, args[0]), eng.to_str(path, args[1])))))
        return SNone()
    c.calls["copytree"] = copytree

    def shcopy(eng, path, e, args, recv):
        k = path.env["_k1"].t
        if "OSError" not in getattr(path, "noraise", set()):
            raise _Raise(FILE_OK(k), "OSError")
        g = path.env["ghost_files"]
        path.heap.list_set(g, z3.Concat(path.heap.list_get(g), z3.Unit(pair(eng.to_str(path, args[0]), eng.to_str(path, args[1])))))
        return SNone()
    c.calls["shutil.copy"] = shcopy
    c.call_havoc["copytree"] = lambda eng, head: head.heap.list_set(head.env["ghost_dirs"], fresh("ghost_dirs", SI))
    c.call_havoc["copy"] = lambda eng, head: head.heap.list_set(head.env["ghost_files"], fresh("ghost_files", SI))
    c.opaque_attr = lambda eng, path, o, name: SOpaque("excattr")
    c.opaque_index = lambda eng, path, container, idx, e: SOpaque("excarg")
    c.assumed.append("copytree / shutil.copy either return or raise OSError (any exception is caught by the handlers anyway); Path.resolve and relative_to are pure; "
                     "ghost lists record the (source, destination) pairs of the calls that returned")

    def stable(v):
        e = E(v)
        return z3.And(v.self == e.self, obj(v) == obj(e), sel(H(v, "copy_subdir"), obj(v)) == sel(H(e, "copy_subdir"), obj(e)), sel(H(v, "files"), obj(v)) == sel(H(e, "files"), obj(e)),
                      cs(v) == cs(e), fs(v) == fs(e), loc(v) == loc(e), pd(v) == pd(e), sel(H(v, "page_dir"), v.self) == sel(H(e, "page_dir"), e.self),
                      v.val("ghost_dirs").id == e.val("ghost_dirs").id, v.val("ghost_files").id == e.val("ghost_files").id)

    def unfold0(v):
        e = E(v)
        return [DIRS(0) == z3.Empty(SI), DIRS(v.k + 1) == z3.Concat(DIRS(v.k), dir_contrib(e, v.k))]

    def unfold1(v):
        e = E(v)
        return [CFILES(0) == z3.Empty(SI), CFILES(v.k + 1) == z3.Concat(CFILES(v.k), file_contrib(e, v.k)), DIRS(0) == z3.Empty(SI)]
    c.loop(0, invariants=[("dirs_copied_so_far", lambda v: gd(v) == DIRS(v.k)), ("files_untouched", lambda v: z3.Length(gf(v)) == 0),
                          ("frame", lambda v: z3.And(stable(v), v.it.seq == cs(E(v)), v.from_path == frm(E(v)), v.to_path == to(E(v))))],
           unfold=unfold0, variant=lambda v: z3.Length(v.it.seq) - v.k)
    c.loop(1, invariants=[("files_copied_so_far", lambda v: gf(v) == CFILES(v.k)), ("dirs_done", lambda v: gd(v) == DIRS(z3.Length(cs(E(v))))),
                          ("frame", lambda v: z3.And(stable(v), v.it.seq == fs(E(v)), v.from_path == frm(E(v)), v.to_path == to(E(v))))],
           unfold=unfold1, variant=lambda v: z3.Length(v.it.seq) - v.k)
    c.local("from_path", TStr())
    c.local("to_path", TStr())
    c.post_facts = lambda v0: [DIRS(0) == z3.Empty(SI), CFILES(0) == z3.Empty(SI)]

    def post(v0, res, v1):
        return z3.And(gd(v1) == DIRS(z3.Length(cs(v0))), gf(v1) == CFILES(z3.Length(fs(v0))))
    c.ensures("every_copy_subdir_entry_inside_the_page_directory_and_every_other_file_is_copied_next_to_the_page", post)
    c.no_raise = True
    return c


def convert_path_obligation(prop="C11"):
    """PageNode.__init__ converts a page's Markdown with `path` = the directory its HTML is written to: [[...]] references and relative links are
    computed with relpath(target, path), which treats `path` as a directory"""
    init = loader.find_def("ford.pagetree", "PageNode.__init__")
    stmts = [ast.unparse(s) for s in ast.walk(init) if isinstance(s, ast.Assign)]
    ok_dir = "output_path = output_dir / 'page' / self.path.parent" in stmts
    calls = [n for n in ast.walk(init) if isinstance(n, ast.Call) and ast.unparse(n.func).endswith(".convert")]
    ok_call = len(calls) == 1 and any(k.arg == "path" and ast.unparse(k.value) == "output_path.resolve()" for k in calls[0].keywords)
    ok = ok_dir and ok_call
    r = OR(id=f"{prop}.S.PageNode.__init__.markdown_converted_relative_to_the_page_directory", status=PROVED if ok else REFUTED, kind="S", role="pre", backend="ast",
           target="ford.pagetree.PageNode.__init__", desc="md.convert(..., path=<output_dir>/page/<directory of the page>): the base against which [[...]] links of a static page are made relative",
           witness=None if ok else {"output_path": [s for s in stmts if s.startswith("output_path")], "convert call": [ast.unparse(c) for c in calls]})
    if not ok:
        from bounded import c17
        r.replay = c17.search(nrandom=0, names=("three levels", "basic"))
    return [r]


def alias_priority_obligation(prop="C17", replay=None):
    """`|media|`, `|page|`, `|url|` and the user's aliases are substituted in the raw text of a page before python-markdown takes anything out of it: the alias preprocessor is
    registered with a priority above those of the preprocessors that stash text away (html_block: block-level raw HTML; fenced_code_block), read from python-markdown's own
    registry on every run.  Otherwise `<div><img src="|media|/logo.png"></div>` keeps the literal alias."""
    import ast
    from harness import loader
    from harness.core import OR, PROVED, REFUTED, UNKNOWN
    oid = f"{prop}.S.AliasExtension.extendMarkdown.aliases_are_substituted_before_raw_html_is_stashed"
    fn = loader.find_def("ford._markdown", "AliasExtension.extendMarkdown")
    regs = [c for c in ast.walk(fn) if isinstance(c, ast.Call) and isinstance(c.func, ast.Attribute) and c.func.attr == "register" and "preprocessors" in ast.unparse(c.func.value)]
    if len(regs) != 1 or len(regs[0].args) < 3 or not isinstance(regs[0].args[2], ast.Constant):
        return [OR(id=oid, status=UNKNOWN, kind="S", target="ford._markdown.AliasExtension.extendMarkdown", detail="registration of the alias preprocessor not found")]
    prio = regs[0].args[2].value
    import markdown
    m = markdown.Markdown(extensions=["markdown.extensions.extra"])
    others = {}
    for name in ("html_block", "fenced_code_block"):
        try:
            idx = m.preprocessors.get_index_for_name(name)
            others[name] = m.preprocessors._priority[idx].priority
        except Exception:
            pass
    ok = bool(others) and all(prio > p for p in others.values())
    r = OR(id=oid, status=PROVED if ok else REFUTED, kind="S", role="pre", backend="ast+python-markdown registry", target="ford._markdown.AliasExtension.extendMarkdown",
           desc=f"alias preprocessor registered with priority {prio}; python-markdown's stashing preprocessors have {others} (higher runs first)")
    if not ok:
        r.witness = {"alias_priority": prio, "stashing_preprocessors": others}
        r.detail = "raw HTML blocks are taken out of the text before the aliases in them are substituted"
        if replay:
            r.replay = replay()
    return [r]


def template_globals_obligation(prop="C17", replay=None):
    """every page is rendered with *its own* `page_url` (the relurl filter makes the links of a page relative to it).  jinja2 keeps one Template object per file and
    `env.get_template(name, globals=..)` updates that object's globals in place, so pages that share a template file (all static pages: info_page.html) share the globals of the
    last call.  BasePage.template therefore has to be looked up at every use: a plain `@property` (no caching decorator) whose body passes `page_url=self.outfile`, and no
    render / html method stores the template object."""
    import ast
    from harness import loader
    from harness.core import OR, PROVED, REFUTED, UNKNOWN
    oid = f"{prop}.S.output.BasePage.template.looked_up_with_the_page_s_own_globals_at_every_use"
    try:
        fn = loader.find_def("ford.output", "BasePage.template")
    except loader.TargetMissing as e:
        return [OR(id=oid, status=UNKNOWN, kind="S", target="ford.output.BasePage.template", detail=str(e))]
    decos = [ast.unparse(d) for d in fn.decorator_list]
    calls = [c for c in ast.walk(fn) if isinstance(c, ast.Call) and ast.unparse(c.func).endswith("get_template")]
    glob_ok = len(calls) == 1 and any(k.arg == "globals" and "page_url=self.outfile" in ast.unparse(k.value).replace(" ", "") for k in calls[0].keywords)
    _, tree = loader.module_source("ford.output")
    stored = [ast.unparse(n)[:60] for n in ast.walk(tree) if isinstance(n, ast.Assign) and "self.template" in ast.unparse(n.value) and "render" not in ast.unparse(n.value)]
    ok = decos == ["property"] and glob_ok and not stored
    r = OR(id=oid, status=PROVED if ok else REFUTED, kind="S", role="pre", backend="ast", target="ford.output.BasePage.template",
           desc=f"decorators {decos}; `env.get_template(.., globals=dict(page_url=self.outfile, ..))`: {glob_ok}; template objects stored elsewhere: {stored}")
    if not ok:
        r.detail = "a page can be rendered with the page_url of another page that uses the same template file: its relative links start from the wrong directory"
        if replay:
            r.replay = replay()
    return [r]


def encoding_forwarded_obligation(prop="C17", replay=None):
    """every page of the tree is read with the project's `encoding`: each `PageNode(...)` construction and the recursive `get_page_tree(...)` call of get_page_tree passes
    `encoding` on (by keyword, or positionally: sixth argument of PageNode, seventh of get_page_tree)."""
    import ast
    from harness import loader
    from harness.core import OR, PROVED, REFUTED, UNKNOWN
    oid = f"{prop}.S.pagetree.get_page_tree.every_page_is_read_with_the_configured_encoding"
    fn = loader.find_def("ford.pagetree", "get_page_tree")
    calls = [c for c in ast.walk(fn) if isinstance(c, ast.Call) and isinstance(c.func, ast.Name) and c.func.id in ("PageNode", "get_page_tree")]
    if len(calls) < 3:
        return [OR(id=oid, status=UNKNOWN, kind="S", target="ford.pagetree.get_page_tree", detail=f"expected the index page, the other pages and the recursion: {len(calls)} constructions found")]

    def passes(c):
        if any(k.arg == "encoding" and ast.unparse(k.value) == "encoding" for k in c.keywords):
            return True
        pos = 5 if c.func.id == "PageNode" else 6          # positions of `encoding` in the two signatures
        return pos is not None and len(c.args) > pos and ast.unparse(c.args[pos]) == "encoding"
    bad = [(c.lineno, ast.unparse(c)[:90]) for c in calls if not passes(c)]
    r = OR(id=oid, status=REFUTED if bad else PROVED, kind="S", role="pre", backend="ast", target="ford.pagetree.get_page_tree",
           desc=f"each of the {len(calls)} PageNode / get_page_tree calls of get_page_tree passes `encoding`")
    if bad:
        r.witness = {"calls": bad}
        r.detail = f"line {bad[0][0]}: `{bad[0][1]}` reads its page as utf-8 whatever the project says: a page with other characters is reported and skipped"
        if replay:
            r.replay = replay()
    return [r]


def location_obligation(prop="C19", replay=None):
    """a static page is written to `<output>/page/<location>/<name>.html`: `location` is the directory of the page's source *relative to the page directory* - relpath(path.parent,
    topdir), which never starts with `..` for a file below topdir (the walk of get_page_tree guarantees that, also under {prop}).  The swapped form relpath(topdir, path.parent)
    climbs out of the output directory."""
    import ast
    from harness import loader
    from harness.core import OR, PROVED, REFUTED, UNKNOWN
    oid = f"{prop}.S.pagetree.PageNode.__init__.location_is_the_source_directory_relative_to_the_page_directory"
    fn = loader.find_def("ford.pagetree", "PageNode.__init__")
    sets = [n for n in ast.walk(fn) if isinstance(n, ast.Assign) and any(ast.unparse(t) == "self.location" for t in n.targets)]
    from contracts import astform
    rel = [n for n in sets if "relpath" in astform.text(fn, n.value)]
    if len(rel) != 1:
        return [OR(id=oid, status=UNKNOWN, kind="S", target="ford.pagetree.PageNode.__init__", detail=f"{len(rel)} assignments of a relpath to self.location")]
    call = [c for c in ast.walk(astform.inline(fn, rel[0].value)) if isinstance(c, ast.Call) and ast.unparse(c.func).endswith("relpath")][0]
    args = [ast.unparse(a) for a in call.args]
    ok = args == ["path.parent", "self.topdir"] and all(ast.unparse(n.value) in ("Path()", "Path('.')", "pathlib.Path()") or n is rel[0] for n in sets)
    r = OR(id=oid, status=PROVED, kind="S", role="post", backend="ast", target="ford.pagetree.PageNode.__init__",
           desc=f"`self.location = Path(os.path.relpath({', '.join(args)}))` (the other assignment: the top page, `Path()`)")
    if not ok:
        r.witness = {"relpath_arguments": args}
        r.detail = "pages below the first level may be placed relative to the wrong directory (from the second level on: outside the output directory)"
    return [astform.decide(r, ok, replay)]

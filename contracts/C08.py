"""C08 - recorded calls are exactly the user procedures a unit invokes (partial).  DESIGN.md section 6, C08."""
from __future__ import annotations
import time
from harness.core import Task, OR, PROVED, REFUTED
from contracts import calls, rx_calls, scanners
from contracts.common import *

PROP = "C08"


def bounded_task():
    def run():
        from bounded import c08
        t0 = time.time()
        hit = c08.search()
        r = OR(id=f"{PROP}.Bd.pipeline.statement_grammar", status=REFUTED if hit else PROVED, kind="Bd", role="bounded", target="ford.fortran_project.Project.correlate (real pipeline)",
               desc="executable parts built from statement forms (nested references, array elements, intrinsics, IF/DO WHILE/SELECT/WHERE/ASSOCIATE headers, I/O, "
                    "ALLOCATE, FORMAT with and without blank, computed GOTO, literals holding call-like text, ';' and '&' layouts) with the call set known by construction",
               bound=f"{c08.count_cases()} programs (each statement form alone + a fixed sample of pairs)", cases=c08.count_cases(), seconds=time.time() - t0, backend="enumeration")
        if hit:
            r.replay, r.witness = hit, hit["input"]
        return [r]
    return Task(f"{PROP}.Bd.pipeline", PROP, "real pipeline", run)


def _quote_split():
    from bounded import c08
    c = scanners.quote_split(PROP)
    c.search_fn = c08.search
    return c


_quote_split.__name__ = "quote_split"


def _continuation():
    from bounded import c08
    from contracts import readerblocks
    c = readerblocks.continuation(PROP)
    c.search_fn = c08.search
    return c


_continuation.__name__ = "continuation_block"


def _fx():
    from contracts import fixedform, C14
    c = fixedform.analyse(PROP)
    c.search_fn = C14.analyse_search
    return c


_fx.__name__ = "analyse"


def build(tier, seed):
    set_tier(tier)
    def _get_deps():
        # calls are classified against the name tables of the used modules: those must have been correlated first (dependency order at any nesting depth)
        from bounded import c07
        from contracts import deps
        c = deps.get_deps(PROP)
        c.search_fn = c07.search
        return c
    _get_deps.__name__ = "get_deps"
    def _literal_end():
        return scanners.literal_end(PROP)
    _literal_end.__name__ = "literal_end"
    tasks = [standin_task(PROP, "parser.spelling_equivalence", lambda: __import__("bounded.c01", fromlist=["x"]).search(), "ford.sourceform (real parser)",
                          "names given shape by DIMENSION / ALLOCATABLE / POINTER / TARGET statements are variables in any letter case: their element references are not calls", "model programs of C01"),
             a_task(PROP, _get_deps), a_task(PROP, _literal_end), a_task(PROP, calls.strip_paren), a_task(PROP, calls.assoc_getitem), a_task(PROP, calls.assoc_contains), a_task(PROP, calls.assoc_remove_last), a_task(PROP, _quote_split),
             Task(f"{PROP}.S.associate_order", PROP, "FortranContainer.__init__", lambda: calls.associate_order(PROP, lambda: __import__("bounded.c08", fromlist=["x"]).search())),
             a_task(PROP, _continuation),
             a_task(PROP, _fx),
             Task(f"{PROP}.S.include", PROP, "FortranReader.include", lambda: __import__("contracts.readerblocks", fromlist=["x"]).include_forwards_configuration(PROP, names=("fixed", "length_limit"), replay=lambda: __import__("bounded.c14", fromlist=["x"]).included_fixed_form())),
             Task(f"{PROP}.S.masking", PROP, "literal masking loops", lambda: __import__("contracts.masking", fromlist=["x"]).obligations(PROP, "ford.sourceform", lambda: __import__("bounded.c08", fromlist=["x"]).search())),
             Task(f"{PROP}.S.casefold.attribs", PROP, "attribute membership tests", lambda: __import__("contracts.casefold", fromlist=["x"]).attribute_obligations(PROP, replay=lambda: __import__("bounded.c08", fromlist=["x"]).search())),
             Task(f"{PROP}.B.call_patterns", PROP, "CALL_RE/SUBCALL_RE/ARITH_GOTO_RE/FORMAT_RE", lambda: rx_calls.obligations(PROP, "patterns")), bounded_task()]
    for part in rx_calls.reach_parts():
        tasks.append(Task(f"{PROP}.B.{part}", PROP, part, (lambda part=part: rx_calls.obligations(PROP, part))))
    meta = {
        "trusted_base": TRUSTED_BASE,
        "assumptions": PYVC_ASSUMPTIONS + REVC_ASSUMPTIONS + [
            "io.StringIO used as a character accumulator is modelled as a list of code points; strings built from it are interned when stored in a list",
            "strip_paren oracle: the depth-selecting transducer (specs in contracts/calls.py): text at depth retlevel with the parentheses of the next inner level kept "
            "and their contents dropped, split whenever a group of depth retlevel closes",
            "a user function or array named `goto` is outside the subset",
        ],
        "functions_under_contract": fn_meta([("ford.utils", "strip_paren", None), ("ford.utils", "quote_split", "the ';' statement splitter: a call after a ';' is found only if the split is right"), ("ford.reader", "FortranReader.__next__", "block contract: continuation joining (a statement broken after CALL keeps the blank that separates the keyword from the name)"),
                                             ("ford.sourceform", "Associations.__getitem__", None),
                                             ("ford.sourceform", "Associations.__contains__", None), ("ford.sourceform", "Associations.remove_last_batch", None)]) +
        [{"constants": "CALL_RE, SUBCALL_RE, ARITH_GOTO_RE, FORMAT_RE and the order of the cascade branches"}],
        "unverified_surroundings": ["FortranContainer._add_procedure_calls as a whole (regex finditer over every depth, intrinsic filter, de-duplication)",
                                    "Associations.add_batch (string surgery)", "call resolution in FortranCodeUnit.correlate and _find_chain_item",
                                    "completeness for every executable statement form of Fortran"],
        "explanation": "strip_paren equals the depth-selecting transducer for lines of any length; association lookup returns the innermost batch's binding; the call "
                       "patterns find CALL statements and function references, never text of masked literals, and FORMAT / computed GOTO / every declaration kind are "
                       "dispatched before the call-scanning branch.",
    }
    return tasks, meta
